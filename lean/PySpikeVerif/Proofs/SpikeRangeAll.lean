/-
  Proofs/SpikeRangeAll.lean — work package E1: every value of the SPIKE profile lies in [0, 1] for
  ALL valid trains, the class of known finding F9 included (properties C07, C18, C02).

  What the scan does on the F9 class.  For a train that is exactly one spike on `t_start`
  (`t = [ts]`) `spkInit` returns the state `⟨tp = ts, tf = te, dtp = d(ts), dtf = d(te), isi = te - ts⟩`
  with an empty list of remaining spikes (`d(z)` = distance of `z` to the nearest spike of the other
  extended train).  The train never advances, so this state (`E1_f9`) is carried unchanged through
  the whole loop, and the contribution the scan uses for the train at a time `t` is the interpolation
  `(d(ts)(te - t) + d(te)(t - ts)) / (te - ts)` with interval length `te - ts` — instead of the
  constant `d(ts)` of the definition (that is finding F9).

  Why the range survives.  `ts` and `te` are both members of the extended train `[ts, ts, te]` of
  `[ts]`, so the pair (contribution, interval length) is a `C1_Bracket` in INTERIOR mode with bracket
  `p = ts ≤ t ≤ f = te` (`E1_f9_bracket`); the other train keeps its invariant `B4_Inv`, so its pair
  is the bracket of the definition (`C1_contrib_bracket`).  The abstract bound `C1_bracket_le_one`
  and `distAtT_nonneg` then apply to every emitted value (`E1_val_ok`).
-/
import PySpikeVerif.Proofs.SpikeBound
import PySpikeVerif.Proofs.SpikeSymm
import PySpikeVerif.Proofs.RangeLaws
import Mathlib.Tactic.Linarith
import Mathlib.Tactic.Ring
import Mathlib.Tactic.FieldSimp
import Mathlib.Algebra.Order.Field.Rat

namespace PySpike
open PySpike.C01

/-! ## 1. the state the scan carries for a train `[ts]`, and its contribution -/

/-- a value of the profile lies in `[0, 1]` -/
def E1_In01 (v : Q) : Prop := 0 ≤ v ∧ v ≤ 1

/-- the constant state of a train that is one spike on `t_start`; `eo` = the other extended train -/
def E1_f9 (eo : List Q) (ts te : Q) : SpkSt := ⟨ts, te, dtTo ts eo, dtTo te eo, te - ts⟩

/-- `spkInit` on the F9 class -/
theorem E1_init_f9 (o : List Q) (ts te : Q) (hvo : ValidNE o ts te) :
    B4_init [ts] o ts te
      = (E1_f9 (extTrain o ts te) ts te, some ts, [], dtTo ts (extTrain o ts te)) := by
  obtain ⟨_, hso, hbo⟩ := hvo
  have hmd : ∀ x, minDist x o (auxStart o ts) (auxEnd o te) = dtTo x (extTrain o ts te) := by
    intro x
    have := B4_minDist_split o ts te [] o x rfl hso hbo (by simp)
    simpa [fromIdx] using this
  simp only [B4_init, spkInit, gt_iff_lt, lt_self_iff_false, if_false, if_true, hmd, E1_f9]

theorem E1_extTrain_f9 (ts te : Q) : extTrain [ts] ts te = [ts, ts, te] := rfl

theorem E1_valid_f9 (ts te : Q) (hlt : ts < te) : ValidNE [ts] ts te :=
  ⟨by simp, by simp, fun x hx => by
    rw [List.mem_singleton.mp hx]; exact ⟨le_refl _, le_of_lt hlt⟩⟩

/-- the pair (contribution, interval length) the scan uses for the F9 train is an interior-mode
    bracket `ts ≤ t ≤ te` of the extended train `[ts, ts, te]` -/
theorem E1_f9_bracket (eo : List Q) (ts te t : Q) (h1 : ts ≤ t) (h2 : t ≤ te) :
    C1_Bracket [ts] eo ts te t (B4_interp (E1_f9 eo ts te) t) (te - ts) :=
  ⟨ts, te, by simp [E1_extTrain_f9], by simp [E1_extTrain_f9], h1, h2, rfl,
    Or.inl ⟨le_refl _, le_refl _, rfl⟩⟩

theorem E1_f9_interp_nonneg (eo : List Q) (ts te t : Q) (hlt : ts < te) (h1 : ts ≤ t) (h2 : t ≤ te) :
    0 ≤ B4_interp (E1_f9 eo ts te) t := by
  unfold B4_interp E1_f9
  apply div_nonneg _ (by linarith)
  exact add_nonneg (mul_nonneg (B4_dtTo_nonneg _ _) (by linarith))
    (mul_nonneg (B4_dtTo_nonneg _ _) (by linarith))

theorem E1_f9_interp_ts (eo : List Q) (ts te : Q) (hlt : ts < te) :
    B4_interp (E1_f9 eo ts te) ts = dtTo ts eo := by
  unfold B4_interp E1_f9
  have : te - ts ≠ 0 := by linarith
  simp only [sub_self, mul_zero, add_zero]
  field_simp

theorem E1_f9_interp_te (eo : List Q) (ts te : Q) (hlt : ts < te) :
    B4_interp (E1_f9 eo ts te) te = dtTo te eo := by
  unfold B4_interp E1_f9
  have : te - ts ≠ 0 := by linarith
  simp only [sub_self, mul_zero, zero_add]
  field_simp

/-- two bracketed, non-negative contributions with positive interval lengths give a value in `[0,1]` -/
theorem E1_dist_in01 (s1 s2 : List Q) (ts te t m : Q) (ri : Bool) (v1 i1 v2 i2 : Q)
    (h1 : C1_Bracket s1 (extTrain s2 ts te) ts te t v1 i1)
    (h2 : C1_Bracket s2 (extTrain s1 ts te) ts te t v2 i2)
    (hi1 : 0 < i1) (hi2 : 0 < i2) (hv1 : 0 ≤ v1) (hv2 : 0 ≤ v2) :
    E1_In01 (distAtT i1 i2 v1 v2 m ri) :=
  ⟨distAtT_nonneg _ _ _ _ m ri hi1 hi2 hv1 hv2,
    C1_bracket_le_one s1 s2 ts te t m ri v1 i1 v2 i2 h1 h2 hi1 hi2⟩

/-- **the key step**: a value built from the defined contribution `(v, i)` of a valid train `s`
    (against `[ts]`) and the F9 state of the train `[ts]` lies in `[0, 1]` -/
theorem E1_val_ok (s : List Q) (ts te t m : Q) (ri : Bool) (right : Bool) (hv : ValidNE s ts te)
    (hlt : ts < te) (hl : if right then ts ≤ t else ts < t) (hu : if right then t < te else t ≤ te)
    (v i : Q) (hc : spikeContrib s [ts] ts te t right = (v, i)) :
    E1_In01 (distAtT i (te - ts) v (B4_interp (E1_f9 (extTrain s ts te) ts te) t) m ri) := by
  obtain ⟨a1, b1⟩ := B4_contrib_sign s [ts] ts te t hv right hl hu
  have hts : ts ≤ t := by cases right <;> simp at hl <;> linarith
  have hte : t ≤ te := by cases right <;> simp at hu <;> linarith
  have hb := C1_contrib_bracket s [ts] ts te t right hv hts hte
  rw [hc] at a1 b1 hb
  exact E1_dist_in01 s [ts] ts te t m ri v i _ _ hb (E1_f9_bracket _ ts te t hts hte) b1
    (by linarith) a1 (E1_f9_interp_nonneg _ ts te t hlt hts hte)

/-! ## 2. the loop when train 1 is `[ts]` (it has no remaining spikes: only train 2 advances) -/

theorem E1_loop_nil (e : SpkEnv) (x1 : SpkSt) (p1 : Option Q) (x2 : SpkSt) (p2 : Option Q) :
    spkLoop e x1 p1 [] x2 p2 [] = ([], x1, x2) := by rw [spkLoop]

theorem E1_loop_cons (e : SpkEnv) (x1 : SpkSt) (p1 : Option Q) (x2 : SpkSt) (p2 : Option Q)
    (b : Q) (r2' : List Q) :
    spkLoop e x1 p1 [] x2 p2 (b :: r2') =
      ((spkAdvance e.te e.m e.ri x2 p2 b r2' x1 (fromIdx p1 []) e.ae2 e.as1 e.ae1).2 ::
        (spkLoop e x1 p1 []
          (spkAdvance e.te e.m e.ri x2 p2 b r2' x1 (fromIdx p1 []) e.ae2 e.as1 e.ae1).1 (some b) r2').1,
       (spkLoop e x1 p1 []
          (spkAdvance e.te e.m e.ri x2 p2 b r2' x1 (fromIdx p1 []) e.ae2 e.as1 e.ae1).1 (some b) r2').2) := by
  rw [spkLoop]

/-- what an advance iteration emits, for an arbitrary state `y` of the other train -/
theorem E1_adv_vals (te m : Q) (ri : Bool) (x : SpkSt) (p : Option Q) (a : Q) (r' : List Q)
    (y : SpkSt) (yfrom : List Q) (xe y0 y1 : Q) (htf : x.tf = a) :
    (spkAdvance te m ri x p a r' y yfrom xe y0 y1).2 =
      (a, distAtT x.isi y.isi (x.dtf * (x.tf - x.tp) / x.isi) (B4_interp y a) m ri,
        distAtT (B4_isiAfter p a r' te) y.isi x.dtf (B4_interp y a) m ri) := by
  subst htf
  cases r' <;> rfl

/-- the advancing train keeps its invariant whatever the numeric state `y` of the other train is
    (only the other train's cursor matters, through the nearest-spike search) -/
theorem E1_step_inv {s o : List Q} {ts te cur : Q} {c r' : List Q} {a : Q} {p : Option Q}
    {x : SpkSt} {cy ry : List Q} {py : Option Q} {y' : SpkSt} (m : Q) (ri : Bool)
    (hx : B4_Inv s o ts te cur c (a :: r') p x) (hy : B4_Inv o s ts te cur cy ry py y') (y : SpkSt) :
    B4_Inv s o ts te a (c ++ [a]) r' (some a)
      (spkAdvance te m ri x p a r' y (fromIdx py ry) (auxEnd s te) (auxStart o ts) (auxEnd o te)).1 := by
  have hca : cur < a := hx.rgt a (by simp)
  refine hx.advance ?_
  rw [hx.st]
  exact B4_advance_state s _ ts te m ri c a r' p y _ _ _ hx.plast
    (fun b r'' hb => hy.minDist_from b
      (le_of_lt (lt_trans hca ((List.pairwise_cons.mp hx.rsorted).1 b (by simp [hb])))))

/-- the loop with train 1 = `[ts]`: every emitted left value is in `[0,1]`, every emitted right
    value at a time `< te` is in `[0,1]`, train 1 keeps its state and train 2 ends fully consumed -/
theorem E1_loop_ok (s : List Q) (ts te m : Q) (ri : Bool) (hlt : ts < te) (hv : ValidNE s ts te) :
    ∀ (r2 : List Q) (x2 : SpkSt) (p2 : Option Q) (cur : Q) (c2 : List Q),
      B4_Inv s [ts] ts te cur c2 r2 p2 x2 →
      (∀ ev ∈ (spkLoop (B4_env [ts] s ts te m ri) (E1_f9 (extTrain s ts te) ts te) (some ts) []
            x2 p2 r2).1, E1_In01 ev.2.1 ∧ (ev.1 < te → E1_In01 ev.2.2)) ∧
      (spkLoop (B4_env [ts] s ts te m ri) (E1_f9 (extTrain s ts te) ts te) (some ts) []
            x2 p2 r2).2.1 = E1_f9 (extTrain s ts te) ts te ∧
      (spkLoop (B4_env [ts] s ts te m ri) (E1_f9 (extTrain s ts te) ts te) (some ts) []
            x2 p2 r2).2.2 = B4_stateOf s (extTrain [ts] ts te) ts te s [] := by
  intro r2
  induction r2 with
  | nil =>
    intro x2 p2 cur c2 h2
    rw [E1_loop_nil]
    have e2 : c2 = s := by have := h2.split; simp at this; exact this.symm
    refine ⟨by simp, rfl, ?_⟩
    rw [h2.st, e2]
  | cons b r2' ih =>
    intro x2 p2 cur c2 h2
    have hcb : cur < b := h2.rgt b (by simp)
    have htsb : ts < b := lt_of_le_of_lt h2.tscur hcb
    have hbte : b ≤ te := (h2.bnd b h2.head_mem).2
    -- a formal invariant of train 1 (its numeric state is irrelevant for train 2's search)
    have hF : B4_Inv [ts] s ts te cur [ts] [] (some ts)
        (B4_stateOf [ts] (extTrain s ts te) ts te [ts] []) :=
      ⟨by simp, by simp, by simp, (E1_valid_f9 ts te hlt).2.2,
        fun z hz => by rw [List.mem_singleton.mp hz]; exact h2.tscur,
        fun z hz => by simp at hz, h2.tscur, by simp, rfl⟩
    have g2 := E1_step_inv m ri h2 hF (E1_f9 (extTrain s ts te) ts te)
    obtain ⟨ih1, ih2⟩ := ih _ (some b) b (c2 ++ [b]) g2
    rw [E1_loop_cons]
    refine ⟨?_, ih2⟩
    intro ev hev
    rcases List.mem_cons.mp hev with h | h
    · have hvals := E1_adv_vals te m ri x2 p2 b r2' (E1_f9 (extTrain s ts te) ts te)
        (fromIdx (some ts) []) (auxEnd s te) (auxStart [ts] ts) (auxEnd [ts] te) h2.tf_eq
      have hev' : ev = (b, distAtT x2.isi (te - ts) (x2.dtf * (x2.tf - x2.tp) / x2.isi)
            (B4_interp (E1_f9 (extTrain s ts te) ts te) b) m ri,
          distAtT (B4_isiAfter p2 b r2' te) (te - ts) x2.dtf
            (B4_interp (E1_f9 (extTrain s ts te) ts te) b) m ri) := by
        rw [h]; exact hvals
      rw [hev']
      refine ⟨?_, ?_⟩
      · exact E1_val_ok s ts te b m ri false hv hlt (by simpa using htsb) (by simpa using hbte) _ _
          h2.contrib_left_adv
      · intro hb
        exact E1_val_ok s ts te b m ri true hv hlt (by simpa using le_of_lt htsb)
          (by simpa using hb) _ _ h2.contrib_right_adv
    · exact ih1 ev h

/-! ## 3. assembling the profile when train 1 is `[ts]` and train 2 is not in the class -/

/-- right values of all pieces but the last: each belongs to a time `< te` -/
theorem E1_starts_dropLast (P : Q → Prop) (te : Q) :
    ∀ (evs : List (Q × Q × Q)) (t0 y0 : Q), (t0 :: evs.map (·.1)).Pairwise (· < ·) →
      (∀ x ∈ t0 :: evs.map (·.1), x ≤ te) → (t0 < te → P y0) →
      (∀ ev ∈ evs, ev.1 < te → P ev.2.2) →
      ∀ v ∈ (y0 :: evs.map (·.2.2)).dropLast, P v := by
  intro evs
  induction evs with
  | nil => intro t0 y0 _ _ _ _ v hv; simp at hv
  | cons ev evs' ih =>
    intro t0 y0 hs hb h0 hev v hv
    simp only [List.map_cons, List.dropLast_cons_cons, List.mem_cons] at hv
    have hs' := List.pairwise_cons.mp hs
    rcases hv with hv | hv
    · rw [hv]
      apply h0
      have h1 : t0 < ev.1 := hs'.1 ev.1 (by simp)
      have h2 : ev.1 ≤ te := hb ev.1 (by simp)
      linarith
    · exact ih ev.1 ev.2.2 hs'.2 (fun x hx => hb x (List.mem_cons_of_mem _ hx))
        (hev ev (by simp)) (fun e he => hev e (List.mem_cons_of_mem _ he)) v hv

/-- train 1 in the F9 class, train 2 valid and not in the class -/
theorem E1_range_f9_left (t2 : List Q) (ts te m : Q) (ri : Bool) (h2 : ValidNE t2 ts te)
    (hlt : ts < te) (hn2 : ¬ OneSpikeOnStart t2 ts) :
    ∀ v ∈ (spikeProfile [ts] t2 ts te m ri).2.1 ++ (spikeProfile [ts] t2 ts te m ri).2.2,
      E1_In01 v := by
  have h1 : ValidNE [ts] ts te := E1_valid_f9 ts te hlt
  obtain ⟨c2, i2, v2⟩ := B4_init_inv t2 [ts] ts te h2 h1 hn2
  have hinit := E1_init_f9 t2 ts te h2
  have hres : B4_res [ts] t2 ts te m ri =
      spkLoop (B4_env [ts] t2 ts te m ri) (E1_f9 (extTrain t2 ts te) ts te) (some ts) []
        (B4_init t2 [ts] ts te).1 (B4_init t2 [ts] ts te).2.1 (B4_init t2 [ts] ts te).2.2.1 := by
    unfold B4_res; rw [hinit]
  obtain ⟨hev, hf1, hf2⟩ := E1_loop_ok t2 ts te m ri hlt h2 _ _ _ ts c2 i2
  rw [← hres] at hev hf1 hf2
  -- the start value
  have hy0 : E1_In01 (distAtT (B4_init [ts] t2 ts te).1.isi (B4_init t2 [ts] ts te).1.isi
      (B4_init [ts] t2 ts te).2.2.2 (B4_init t2 [ts] ts te).2.2.2 m ri) := by
    rw [hinit, distAtT_symm]
    have hc : spikeContrib t2 [ts] ts te ts true
        = ((B4_init t2 [ts] ts te).2.2.2, (B4_init t2 [ts] ts te).1.isi) := by
      rw [B4_contrib_right t2 [ts] ts te ts c2 _ i2.split i2.sorted i2.ne i2.cle i2.rgt]
      simp only [B4_cform]
      rw [← v2]
      have e2 : (B4_init t2 [ts] ts te).1.isi = B4_nuform ts te c2 (B4_init t2 [ts] ts te).2.2.1 := by
        conv_lhs => rw [i2.st]
        rfl
      rw [← e2]
    have := E1_val_ok t2 ts te ts m ri true h2 hlt (by simp) (by simpa using hlt) _ _ hc
    rw [E1_f9_interp_ts _ ts te hlt] at this
    exact this
  -- times
  obtain ⟨hs, hm⟩ := isiEvents_times [ts] t2 ts te 0 h1 h2
  have hT : (isiEvents [ts] t2 ts te 0).map (·.1) = ts :: (B4_res [ts] t2 ts te m ri).1.map (·.1) := by
    rw [B4_res_times]; rfl
  rw [hT] at hs hm
  have hb : ∀ x ∈ ts :: (B4_res [ts] t2 ts te m ri).1.map (·.1), x ≤ te := by
    intro x hx
    rcases (hm x).mp hx with hx | ⟨_, hx | hx⟩
    · rw [hx]; exact le_of_lt hlt
    · exact (h1.2.2 x hx).2
    · exact (h2.2.2 x hx).2
  have hends : ∀ v ∈ (B4_res [ts] t2 ts te m ri).1.map (·.2.1), E1_In01 v := by
    intro v hv
    obtain ⟨ev, hev', rfl⟩ := List.mem_map.mp hv
    exact (hev ev hev').1
  rw [B4_spikeProfile_unfold]
  split
  · intro v hv
    rcases List.mem_append.mp hv with hv | hv
    · exact E1_starts_dropLast E1_In01 te _ ts _ hs hb (fun _ => hy0)
        (fun ev hev' => (hev ev hev').2) v hv
    · exact hends v hv
  · next hl =>
    obtain ⟨_, hl2⟩ := B4_all_lt_te [ts] t2 ts te m ri hlt h1 h2 hl
    have hall : ∀ ev ∈ (B4_res [ts] t2 ts te m ri).1, ev.1 < te := by
      intro ev hev'
      have hx : ev.1 ∈ ts :: (B4_res [ts] t2 ts te m ri).1.map (·.1) :=
        List.mem_cons_of_mem _ (List.mem_map_of_mem hev')
      rcases (hm ev.1).mp hx with hx | ⟨_, hx | hx⟩
      · rw [hx]; exact hlt
      · rw [List.mem_singleton.mp hx]; exact hlt
      · exact hl2 _ hx
    intro v hv
    rcases List.mem_append.mp hv with hv | hv
    · rcases List.mem_cons.mp hv with hv | hv
      · rw [hv]; exact hy0
      · obtain ⟨ev, hev', rfl⟩ := List.mem_map.mp hv
        exact (hev ev hev').2 (hall ev hev')
    · rcases List.mem_append.mp hv with hv | hv
      · exact hends v hv
      · rw [List.mem_singleton.mp hv, hf1, hf2, distAtT_symm]
        have hc := B4_final_contrib t2 [ts] ts te te h2.2.1 h2.1 hl2
        have := E1_val_ok t2 ts te te m ri false h2 hlt (by simpa using hlt) (by simp) _ _ hc
        rw [E1_f9_interp_te _ ts te hlt] at this
        exact this

/-! ## 4. the main theorem -/

/-- **C07/C18, no exclusion**: for ALL valid trains — the class of known finding F9 included —
    every value of the SPIKE profile computed by the scan lies in `[0, 1]`
    (every MRTS `m`, both variants `ri`). -/
theorem spikeProfile_range_all (t1 t2 : List Q) (ts te m : Q) (ri : Bool)
    (h1 : ValidNE t1 ts te) (h2 : ValidNE t2 ts te) (hlt : ts < te) :
    ∀ v ∈ (spikeProfile t1 t2 ts te m ri).2.1 ++ (spikeProfile t1 t2 ts te m ri).2.2, 0 ≤ v ∧ v ≤ 1 := by
  by_cases hn1 : OneSpikeOnStart t1 ts
  · have e1 : t1 = [ts] := hn1
    subst e1
    by_cases hn2 : OneSpikeOnStart t2 ts
    · have e2 : t2 = [ts] := hn2
      subst e2
      intro v hv
      rw [spikeProfile_self [ts] ts te m ri h1 hlt v hv]
      exact ⟨le_refl _, zero_le_one⟩
    · exact E1_range_f9_left t2 ts te m ri h2 hlt hn2
  · by_cases hn2 : OneSpikeOnStart t2 ts
    · have e2 : t2 = [ts] := hn2
      subst e2
      rw [spikeProfile_symm]
      exact E1_range_f9_left t1 ts te m ri h1 hlt hn1
    · intro v hv
      refine ⟨?_, spikeProfile_le_one t1 t2 ts te m ri h1 h2 hlt hn1 hn2 v hv⟩
      obtain ⟨a, b⟩ := B4_spikeProfile_nonneg t1 t2 ts te m ri h1 h2 hlt hn1 hn2
      rcases List.mem_append.mp hv with h | h
      · exact a v h
      · exact b v h

/-- hypotheses of `spikeProfile_range_all` on inputs of the F9 class -/
example : ValidNE [0] 0 6 ∧ ValidNE [0, 4] 0 6 ∧ (0 : Q) < 6 ∧ OneSpikeOnStart [0] 0 := by
  unfold ValidNE; decide +kernel

/-- the profile bounded there: the model's values differ from the definition (finding F9) but
    stay in `[0, 1]` -/
example : spikeProfile [0] [0, 4] 0 6 0 false = ([0, 4, 6], [0, 26 / 75], [26 / 75, 2 / 5]) := by
  decide +kernel
example : spikeProfile [3, 6] [0] 0 6 2 true = ([0, 3, 6], [1 / 3, 1 / 3], [1 / 3, 0]) := by
  decide +kernel

/-! ## 5. API corollaries (every keyword combination, no exclusion) -/

/-- all values of the bivariate SPIKE profile of two valid trains lie in `[0, 1]` -/
theorem E1_spikeProfileBi_range_all (kw : Kw) (a b : Train) (ha : ValidTrain a) (hb : ValidTrain b)
    (hts : b.ts = a.ts) (hte : b.te = a.te) : (spikeProfileBi kw a b).D2_In 0 1 := by
  rw [C2_spikeProfileBi_valid kw a b ha hb hts hte]
  have h1 := nonEmpty_valid a ha
  have h2 := nonEmpty_valid b hb
  rw [hts, hte] at h2
  have hall := spikeProfile_range_all a.nonEmpty b.nonEmpty a.ts a.te kw.mrts kw.ri h1 h2 ha.1
  unfold spikeProfileBi
  rw [prepBi_noRecon]
  exact ⟨fun v hv => hall v (List.mem_append_left _ hv),
    fun v hv => hall v (List.mem_append_right _ hv)⟩

/-- **SPIKE distance of two valid trains lies in `[0, 1]`** — whole recording and sub-intervals
    `(x, y)` with `x < y ≤ t_end`, every `kw`, the F9 class included -/
theorem E1_spikeDistanceBi_range_all (kw : Kw) (a b : Train) (ha : ValidTrain a) (hb : ValidTrain b)
    (hts : b.ts = a.ts) (hte : b.te = a.te)
    (hiv : ∀ x y, kw.interval = some (x, y) → x < y ∧ y ≤ a.te) :
    ∀ d, spikeDistanceBi kw a b = some d → 0 ≤ d ∧ d ≤ 1 := by
  intro d hd
  have hon := C2_spikeProfileBi_on_anyRecon kw a b ha hb hts hte
  have hin := E1_spikeProfileBi_range_all kw a b ha hb hts hte
  unfold spikeDistanceBi pwlAvrgKw at hd
  cases hi : kw.interval with
  | none =>
    rw [hi] at hd
    cases hd
    exact Pwl.D2_avrgAll_range hon.1 hin
  | some iv =>
    obtain ⟨x, y⟩ := iv
    rw [hi] at hd
    obtain ⟨hxy, hy⟩ := hiv x y hi
    exact Pwl.D2_avrg_range hon.1 hin hxy (by rw [hon.2.2]; exact hy) hd

/-- hypotheses of the API corollaries on a pair in the F9 class -/
example : ValidTrain ⟨[0], 0, 6⟩ ∧ ValidTrain ⟨[0, 4], 0, 6⟩ ∧
    OneSpikeOnStart (⟨[0], 0, 6⟩ : Train).nonEmpty 0 :=
  ⟨⟨by decide, by decide, by decide⟩, ⟨by decide, by decide, by decide⟩, by decide⟩
example : ∀ x y, ({ recon := false, interval := some (1/2, 5) } : Kw).interval = some (x, y) →
    x < y ∧ y ≤ (⟨[0], 0, 6⟩ : Train).te := by
  intro x y h
  simp only [Option.some.injEq, Prod.mk.injEq] at h
  obtain ⟨rfl, rfl⟩ := h
  exact ⟨by norm_num, by decide +kernel⟩

/-! ## 6. multivariate corollaries: the hypothesis `D2_NoF9` of `Proofs/RangeLaws.lean` is not needed -/

/-- **multivariate SPIKE distance lies in `[0, 1]`**: valid trains with common edges (F9 class
    included), every `kw`, sub-intervals `(x, y)` with `x < y ≤ te` -/
theorem E1_spikeDistanceMulti_range_all (kw : Kw) (L : List Train) (ts te : Q)
    (hv : B5_ValidList ts te L) (h2 : 2 ≤ L.length)
    (hiv : ∀ x y, kw.interval = some (x, y) → x < y ∧ y ≤ te) :
    ∀ d, spikeDistanceMulti kw none L = some d → 0 ≤ d ∧ d ≤ 1 := by
  unfold spikeDistanceMulti
  rw [B5_prep_valid kw ts te L hv (B5_ne_nil_of_two h2)]
  simp only [resolveIdx]
  apply D2_genericDistanceMulti_range _ _ _ (B5_pairs_range_ne_nil h2)
  intro p hp
  obtain ⟨m1, m2⟩ := B5_pair_mem L p hp
  obtain ⟨v1, s1, e1⟩ := hv _ m1
  obtain ⟨v2, s2, e2⟩ := hv _ m2
  exact E1_spikeDistanceBi_range_all kw.noRecon _ _ v1 v2 (s2.trans s1.symm) (e2.trans e1.symm)
    (fun x y h => by rw [e1]; exact hiv x y h)

/-- the same for a selection `indices = l` of the trains -/
theorem E1_spikeDistanceMulti_range_idx_all (kw : Kw) (L : List Train) (ts te : Q)
    (hv : B5_ValidList ts te L) (l : List Nat) (hl : ∀ i ∈ l, i < L.length) (h2 : 2 ≤ l.length)
    (hiv : ∀ x y, kw.interval = some (x, y) → x < y ∧ y ≤ te) :
    ∀ d, spikeDistanceMulti kw (some l) L = some d → 0 ≤ d ∧ d ≤ 1 := by
  unfold spikeDistanceMulti
  rw [B5_prep_valid kw ts te L hv (D2_ne_nil_of_idx hl h2)]
  simp only [resolveIdx]
  apply D2_genericDistanceMulti_range _ _ _ (pairsOf_ne_nil h2)
  intro p hp
  obtain ⟨m1, m2⟩ := D2_pair_mem_idx hl hp
  obtain ⟨v1, s1, e1⟩ := hv _ m1
  obtain ⟨v2, s2, e2⟩ := hv _ m2
  exact E1_spikeDistanceBi_range_all kw.noRecon _ _ v1 v2 (s2.trans s1.symm) (e2.trans e1.symm)
    (fun x y h => by rw [e1]; exact hiv x y h)

/-- **every value of the multivariate SPIKE profile lies in `[0, 1]`** (all trains or a selection
    `l` of them; F9 class included) -/
theorem E1_spikeProfileMulti_range_idx_all (kw : Kw) (L : List Train) (ts te : Q)
    (hv : B5_ValidList ts te L) (l : List Nat) (hl : ∀ i ∈ l, i < L.length) (h2 : 2 ≤ l.length) :
    (spikeProfileMulti kw (some l) L).D2_In 0 1 := by
  have hne := pairsOf_ne_nil h2
  unfold spikeProfileMulti
  rw [B5_prep_valid kw ts te L hv (D2_ne_nil_of_idx hl h2)]
  simp only [resolveIdx]
  rw [genericProfileMulti_snd]
  have hS := D2_gpm_count Pwl.add (fun p => spikeProfileBi kw.noRecon (tr L p.1) (tr L p.2))
    (fun n f => B5_PwlOn ts te f ∧ f.D2_In 0 (n : Q))
    (by
      intro m n a b ha hb
      refine ⟨ha.1.add hb.1, ?_⟩
      have := Pwl.D2_add_range ha.1.1 hb.1.1 (ha.1.2.1.trans hb.1.2.1.symm)
        (ha.1.2.2.trans hb.1.2.2.symm) ha.2 hb.2
      rwa [zero_add, ← Nat.cast_add] at this)
    l hne
    (by
      intro p hp
      obtain ⟨m1, m2⟩ := D2_pair_mem_idx hl hp
      obtain ⟨v1, s1, e1⟩ := hv _ m1
      obtain ⟨v2, s2, e2⟩ := hv _ m2
      have hon := C2_spikeProfileBi_on_anyRecon kw.noRecon _ _ v1 v2 (s2.trans s1.symm)
        (e2.trans e1.symm)
      rw [s1, e1] at hon
      refine ⟨hon, ?_⟩
      have := E1_spikeProfileBi_range_all kw.noRecon _ _ v1 v2 (s2.trans s1.symm) (e2.trans e1.symm)
      simpa using this)
  have hpos : (0 : Q) < ((pairsOf l).length : Q) := by
    exact_mod_cast List.length_pos_iff.mpr hne
  have := Pwl.D2_mulScalar_range (1 / ((pairsOf l).length : Q)) (by positivity) hS.2
  rwa [zero_mul, mul_one_div_cancel (ne_of_gt hpos)] at this

theorem E1_spikeProfileMulti_range_all (kw : Kw) (L : List Train) (ts te : Q)
    (hv : B5_ValidList ts te L) (h2 : 2 ≤ L.length) :
    (spikeProfileMulti kw none L).D2_In 0 1 := by
  have hne := B5_pairs_range_ne_nil h2
  unfold spikeProfileMulti
  rw [B5_prep_valid kw ts te L hv (B5_ne_nil_of_two h2)]
  simp only [resolveIdx]
  rw [genericProfileMulti_snd]
  have hS := D2_gpm_count Pwl.add (fun p => spikeProfileBi kw.noRecon (tr L p.1) (tr L p.2))
    (fun n f => B5_PwlOn ts te f ∧ f.D2_In 0 (n : Q))
    (by
      intro m n a b ha hb
      refine ⟨ha.1.add hb.1, ?_⟩
      have := Pwl.D2_add_range ha.1.1 hb.1.1 (ha.1.2.1.trans hb.1.2.1.symm)
        (ha.1.2.2.trans hb.1.2.2.symm) ha.2 hb.2
      rwa [zero_add, ← Nat.cast_add] at this)
    (List.range L.length) hne
    (by
      intro p hp
      refine ⟨C2_spike_leaf_on kw.noRecon L ts te rfl hv p hp, ?_⟩
      obtain ⟨m1, m2⟩ := B5_pair_mem L p hp
      obtain ⟨v1, s1, e1⟩ := hv _ m1
      obtain ⟨v2, s2, e2⟩ := hv _ m2
      have := E1_spikeProfileBi_range_all kw.noRecon _ _ v1 v2 (s2.trans s1.symm) (e2.trans e1.symm)
      simpa using this)
  have hpos : (0 : Q) < ((pairsOf (List.range L.length)).length : Q) := by
    exact_mod_cast List.length_pos_iff.mpr hne
  have := Pwl.D2_mulScalar_range (1 / ((pairsOf (List.range L.length)).length : Q))
    (by positivity) hS.2
  rwa [zero_mul, mul_one_div_cancel (ne_of_gt hpos)] at this

/-- averages of the multivariate SPIKE profile lie in `[0, 1]` (F9 class included) -/
theorem E1_spikeProfileMulti_avrg_range_all (kw : Kw) (L : List Train) (ts te : Q)
    (hv : B5_ValidList ts te L) (h2 : 2 ≤ L.length) :
    (0 ≤ (spikeProfileMulti kw none L).avrgAll ∧ (spikeProfileMulti kw none L).avrgAll ≤ 1) ∧
    ∀ a b v, a < b → b ≤ te → (spikeProfileMulti kw none L).avrg a b = some v → 0 ≤ v ∧ v ≤ 1 :=
  ⟨Pwl.D2_avrgAll_range (D2_spikeProfileMulti_on kw L ts te hv h2).1
      (E1_spikeProfileMulti_range_all kw L ts te hv h2),
   fun _ _ _ hab hb h => Pwl.D2_avrg_range (D2_spikeProfileMulti_on kw L ts te hv h2).1
      (E1_spikeProfileMulti_range_all kw L ts te hv h2) hab
      (by rw [(D2_spikeProfileMulti_on kw L ts te hv h2).2.2]; exact hb) h⟩

/-- **SPIKE distance matrix**: diagonal 0, every entry in `[0, 1]` (F9 class included) -/
theorem E1_spikeDistanceMatrix_range_all (kw : Kw) (L : List Train) (ts te : Q)
    (hv : B5_ValidList ts te L) (hne : L ≠ [])
    (hiv : ∀ x y, kw.interval = some (x, y) → x < y ∧ y ≤ te) (M : List (List Q))
    (h : spikeDistanceMatrix kw none L = some M) (i j : Nat) (hi : i < L.length) (hj : j < L.length) :
    (i = j → (M.getD i []).getD j 0 = 0) ∧
    0 ≤ (M.getD i []).getD j 0 ∧ (M.getD i []).getD j 0 ≤ 1 := by
  unfold spikeDistanceMatrix at h
  rw [B5_prep_valid kw ts te L hv hne] at h
  simp only [resolveIdx] at h
  have := D2_genericDistanceMatrix_range (lo := 0) (up := 1) _ 0 L M
    (by
      intro a ha b hb
      obtain ⟨v1, s1, e1⟩ := hv _ ha
      obtain ⟨v2, s2, e2⟩ := hv _ hb
      exact E1_spikeDistanceBi_range_all kw.noRecon a b v1 v2 (s2.trans s1.symm) (e2.trans e1.symm)
        (fun x y hxy => by rw [e1]; exact hiv x y hxy))
    h i j hi hj
  refine ⟨this.1, ?_⟩
  by_cases hij : i = j
  · rw [this.1 hij]; exact ⟨le_refl _, zero_le_one⟩
  · exact this.2 hij

/-- a list of valid trains on `[0, 6]` containing a train of the F9 class -/
def E1_exL : List Train := [⟨[0], 0, 6⟩, ⟨[0, 4], 0, 6⟩, ⟨[2, 3, 6], 0, 6⟩]

example : B5_ValidList 0 6 E1_exL ∧ 2 ≤ E1_exL.length ∧ E1_exL ≠ [] ∧ ¬ D2_NoF9 E1_exL := by
  refine ⟨?_, by decide, by decide, ?_⟩
  · intro a ha
    simp only [E1_exL, List.mem_cons, List.not_mem_nil, or_false] at ha
    rcases ha with rfl | rfl | rfl <;> exact ⟨⟨by decide, by decide, by decide⟩, rfl, rfl⟩
  · intro h
    exact h ⟨[0], 0, 6⟩ (by simp [E1_exL]) (by decide)

end PySpike
