/-
  Proofs/FilterLaws.lean — work package B6: the SPIKE-Sync filter (property C17) and the C18-style
  shape facts.  `kw.recon = false` throughout (reconciliation is covered by Proofs/Reconcile.lean).
-/
import PySpikeVerif.Spec.Sync
import PySpikeVerif.Proofs.Basic
import PySpikeVerif.Proofs.Isi
import Mathlib.Data.List.Basic
import Mathlib.Data.List.GetD
import Mathlib.Data.List.Perm.Basic
import Mathlib.Algebra.Order.Field.Rat
import Mathlib.Algebra.BigOperators.Group.List.Basic
import Mathlib.Tactic.Linarith
import Mathlib.Tactic.Ring

namespace PySpike

/-! ## 1. `singleLoop` / `coincSingle`: one value per spike, each 0 or 1 -/

theorem singleLoop_length (tm m : Q) : ∀ (r1 k1 k2 r2 : List Q),
    (singleLoop tm m k1 r1 k2 r2).length = r1.length := by
  intro r1
  induction r1 with
  | nil => intro k1 k2 r2; rfl
  | cons a r1' ih =>
    intro k1 k2 r2
    rw [singleLoop]
    generalize skipBefore a k2 r2 = sk
    obtain ⟨k2a, r2a⟩ := sk
    cases r2a with
    | nil => simp [ih]
    | cons b r2b =>
      cases k2a with
      | nil => simp [ih]
      | cons j t =>
        by_cases hja : j < a <;> simp [hja, ih]

theorem B6_coincSingle_length (s1 s2 : List Q) (ts te maxTau mrts : Q) :
    (coincSingle s1 s2 ts te maxTau mrts).length = s1.length :=
  singleLoop_length _ _ s1 [] [] s2

theorem B6_singleLoop_mem01 (tm m : Q) : ∀ (r1 k1 k2 r2 : List Q),
    ∀ x ∈ singleLoop tm m k1 r1 k2 r2, x = 0 ∨ x = 1 := by
  intro r1
  induction r1 with
  | nil => intro k1 k2 r2 x hx; simp [singleLoop] at hx
  | cons a r1' ih =>
    intro k1 k2 r2 x
    rw [singleLoop]
    generalize skipBefore a k2 r2 = sk
    obtain ⟨k2a, r2a⟩ := sk
    cases r2a with
    | nil =>
      cases k2a with
      | nil =>
        simp only [List.mem_cons]
        rintro (h | h)
        · exact Or.inl h
        · exact ih _ _ _ x h
      | cons j t =>
        simp only [List.mem_cons]
        rintro (h | h)
        · subst h; split <;> simp
        · exact ih _ _ _ x h
    | cons b r2b =>
      cases k2a with
      | nil =>
        simp only [List.mem_cons]
        rintro (h | h)
        · subst h; split <;> simp
        · exact ih _ _ _ x h
      | cons j t =>
        by_cases hja : j < a
        · simp only [hja, decide_true, List.mem_cons]
          rintro (h | h)
          · subst h; split
            · simp
            · split <;> simp
          · exact ih _ _ _ x h
        · simp only [hja, decide_false, List.mem_cons]
          rintro (h | h)
          · subst h; split <;> simp
          · exact ih _ _ _ x h

theorem B6_coincSingle_mem01 (s1 s2 : List Q) (ts te maxTau mrts : Q) :
    ∀ x ∈ coincSingle s1 s2 ts te maxTau mrts, x = 0 ∨ x = 1 :=
  B6_singleLoop_mem01 _ _ s1 [] [] s2

theorem B6_coincSingle_getD_01 (s1 s2 : List Q) (ts te maxTau mrts : Q) (k : Nat) :
    (coincSingle s1 s2 ts te maxTau mrts).getD k 0 = 0 ∨
    (coincSingle s1 s2 ts te maxTau mrts).getD k 0 = 1 := by
  by_cases hk : k < (coincSingle s1 s2 ts te maxTau mrts).length
  · rw [List.getD_eq_getElem _ _ hk]
    exact B6_coincSingle_mem01 _ _ _ _ _ _ _ (List.getElem_mem hk)
  · left; exact List.getD_eq_default _ _ (by omega)

/-! ## 2. `coincCounts`: length, sum form, bounds -/

theorem B6_addLists_length : ∀ (a b : List Q), (addLists a b).length = a.length
  | [], [] => rfl
  | [], _ :: _ => rfl
  | _ :: _, [] => rfl
  | _ :: r, _ :: s => by simp [addLists, B6_addLists_length r s]

theorem B6_addLists_getD : ∀ (a b : List Q) (k : Nat), b.length = a.length →
    (addLists a b).getD k 0 = a.getD k 0 + b.getD k 0
  | [], [], k, _ => by simp [addLists]
  | [], _ :: _, _, h => by simp at h
  | _ :: _, [], _, h => by simp at h
  | x :: r, y :: s, k, h => by
    cases k with
    | zero => simp [addLists]
    | succ k =>
      simp only [addLists, List.getD_cons_succ]
      exact B6_addLists_getD r s k (by simpa using h)

/-- the fold of `coincCounts` over an arbitrary index list -/
theorem B6_fold_length (i : Nat) (f : Nat → List Q) : ∀ (js : List Nat) (acc : List Q),
    (js.foldl (fun acc j => if i = j then acc else addLists acc (f j)) acc).length = acc.length := by
  intro js
  induction js with
  | nil => intro acc; rfl
  | cons j js ih =>
    intro acc
    rw [List.foldl_cons, ih]
    split
    · rfl
    · exact B6_addLists_length _ _

theorem B6_fold_getD (i : Nat) (f : Nat → List Q) (n : Nat) (hf : ∀ j, (f j).length = n) (k : Nat) :
    ∀ (js : List Nat) (acc : List Q), acc.length = n →
    (js.foldl (fun acc j => if i = j then acc else addLists acc (f j)) acc).getD k 0
      = acc.getD k 0 + ((js.filter (· ≠ i)).map fun j => (f j).getD k 0).sum := by
  intro js
  induction js with
  | nil => intro acc _; simp
  | cons j js ih =>
    intro acc hacc
    rw [List.foldl_cons]
    by_cases hij : i = j
    · subst hij
      rw [if_pos rfl, ih acc hacc]
      simp
    · rw [if_neg hij, ih _ (by rw [B6_addLists_length, hacc]),
        B6_addLists_getD _ _ _ (by rw [hf, hacc])]
      have : j ≠ i := fun h => hij h.symm
      simp [this, add_assoc]

theorem coincCounts_length (kw : Kw) (L : List Train) (i : Nat) :
    (coincCounts kw L i).length = (tr L i).spikes.length := by
  unfold coincCounts
  simp only
  rw [B6_fold_length i (fun j => coincSingle (tr L i).spikes (tr L j).spikes (tr L i).ts (tr L i).te
    kw.maxTau kw.mrts)]
  simp

/-- the `k`-th count is the sum over the other trains `j ≠ i` of the `k`-th coincidence indicator
    of train `i` against train `j` -/
theorem coincCounts_eq_sum (kw : Kw) (L : List Train) (i k : Nat) :
    (coincCounts kw L i).getD k 0
      = (((List.range L.length).filter (· ≠ i)).map fun j =>
          (coincSingle (tr L i).spikes (tr L j).spikes (tr L i).ts (tr L i).te
            kw.maxTau kw.mrts).getD k 0).sum := by
  unfold coincCounts
  simp only
  rw [B6_fold_getD i (fun j => coincSingle (tr L i).spikes (tr L j).spikes (tr L i).ts (tr L i).te
    kw.maxTau kw.mrts) (tr L i).spikes.length (fun j => B6_coincSingle_length _ _ _ _ _ _) k _ _
    (by simp)]
  have : ((tr L i).spikes.map fun _ => (0 : Q)).getD k 0 = 0 := by
    by_cases hk : k < (tr L i).spikes.length
    · rw [List.getD_eq_getElem _ _ (by simpa using hk)]; simp
    · exact List.getD_eq_default _ _ (by simp; omega)
  rw [this, zero_add]

theorem B6_sum_map_01 {ι} (g : ι → Q) (hg : ∀ j, g j = 0 ∨ g j = 1) : ∀ (l : List ι),
    (l.map g).sum = ((l.filter fun j => decide (g j = 1)).length : Q)
  | [] => by simp
  | j :: l => by
    rw [List.map_cons, List.sum_cons, B6_sum_map_01 g hg l, List.filter_cons]
    rcases hg j with h | h
    · simp [h]
    · simp [h, add_comm]

theorem B6_range_filter_ne_length (n i : Nat) (hi : i < n) :
    ((List.range n).filter (· ≠ i)).length = n - 1 := by
  have h : (fun x : Nat => decide (x ≠ i)) = (fun x => x != i) := by
    funext x; by_cases hx : x = i <;> simp [hx]
  rw [h, ← List.Nodup.erase_eq_filter List.nodup_range,
    List.length_erase_of_mem (List.mem_range.mpr hi), List.length_range]

theorem B6_tr_ge (L : List Train) (i : Nat) (hi : L.length ≤ i) : tr L i = default := by
  unfold tr; exact List.getD_eq_default _ _ hi

/-- the `k`-th count is the NUMBER of other trains with which spike `k` of train `i` is coincident -/
theorem B6_coincCounts_eq_card (kw : Kw) (L : List Train) (i k : Nat) :
    (coincCounts kw L i).getD k 0
      = (((List.range L.length).filter fun j => decide (j ≠ i ∧
          (coincSingle (tr L i).spikes (tr L j).spikes (tr L i).ts (tr L i).te
            kw.maxTau kw.mrts).getD k 0 = 1)).length : Q) := by
  rw [coincCounts_eq_sum, B6_sum_map_01 _ (fun j => B6_coincSingle_getD_01 _ _ _ _ _ _ k),
    List.filter_filter]
  congr 2
  apply List.filter_congr
  intro j _
  simp [Bool.and_comm]

theorem B6_coincCounts_getD_bounds (kw : Kw) (L : List Train) (i k : Nat) (hi : i < L.length) :
    0 ≤ (coincCounts kw L i).getD k 0 ∧ (coincCounts kw L i).getD k 0 ≤ (L.length : Q) - 1 := by
  rw [B6_coincCounts_eq_card]
  refine ⟨Nat.cast_nonneg _, ?_⟩
  have h1 : ((List.range L.length).filter fun j => decide (j ≠ i ∧
          (coincSingle (tr L i).spikes (tr L j).spikes (tr L i).ts (tr L i).te
            kw.maxTau kw.mrts).getD k 0 = 1)).length ≤ L.length - 1 := by
    rw [← B6_range_filter_ne_length L.length i hi]
    apply List.Sublist.length_le
    apply List.monotone_filter_right
    intro j hj
    simp only [decide_eq_true_eq] at hj ⊢
    exact hj.1
  have h2 : ((L.length - 1 : Nat) : Q) = (L.length : Q) - 1 := by
    rw [Nat.cast_sub (by omega)]; simp
  rw [← h2]
  exact_mod_cast h1

/-- every count lies in `[0, N-1]` (for `i ≥ N` there are no counts at all) -/
theorem B6_coincCounts_bounds (kw : Kw) (L : List Train) (i : Nat) :
    ∀ c ∈ coincCounts kw L i, 0 ≤ c ∧ c ≤ (L.length : Q) - 1 := by
  intro c hc
  obtain ⟨k, hk, rfl⟩ := List.getElem_of_mem hc
  by_cases hi : i < L.length
  · rw [← List.getD_eq_getElem _ 0 hk]
    exact B6_coincCounts_getD_bounds kw L i k hi
  · exfalso
    rw [coincCounts_length, B6_tr_ge L i (by omega)] at hk
    simp [default] at hk

example : coincCounts {} [⟨[1, 5, 9], 0, 10⟩, ⟨[1, 6, 8], 0, 10⟩, ⟨[1, 4, 9], 0, 10⟩] 0 = [2, 1, 1] := by
  decide +kernel

theorem B6_qsum_eq_sum : ∀ (l : List Q), qsum l = l.sum
  | [] => rfl
  | a :: r => by rw [qsum, List.sum_cons, B6_qsum_eq_sum r]

/-- `coincCounts_eq_sum` with the model's own `qsum` -/
theorem B6_coincCounts_eq_qsum (kw : Kw) (L : List Train) (i k : Nat) :
    (coincCounts kw L i).getD k 0
      = qsum (((List.range L.length).filter (· ≠ i)).map fun j =>
          (coincSingle (tr L i).spikes (tr L j).spikes (tr L i).ts (tr L i).te
            kw.maxTau kw.mrts).getD k 0) := by
  rw [B6_qsum_eq_sum, coincCounts_eq_sum]

/-- Bridge to the cursor-free specification: wherever `coincSingle` agrees with `singleSpec`
    (the correspondence validated for sorted trains; it is the subject of another work package),
    the `k`-th count is the number of other trains `j` containing a spike coincident (`Coinc`)
    with spike `k` of train `i`. -/
theorem B6_coincCounts_eq_card_spec (kw : Kw) (L : List Train) (i k : Nat)
    (hk : k < (tr L i).spikes.length)
    (hspec : ∀ j, j < L.length → j ≠ i →
      coincSingle (tr L i).spikes (tr L j).spikes (tr L i).ts (tr L i).te kw.maxTau kw.mrts
        = singleSpec (tr L i).spikes (tr L j).spikes
            (trueMax (tr L i).ts (tr L i).te kw.maxTau) kw.mrts) :
    (coincCounts kw L i).getD k 0
      = (((List.range L.length).filter fun j => decide (j ≠ i ∧
          ∃ b ∈ (tr L j).spikes, Coinc (tr L i).spikes (tr L j).spikes
            (trueMax (tr L i).ts (tr L i).te kw.maxTau) kw.mrts ((tr L i).spikes[k]) b)).length : Q) := by
  rw [B6_coincCounts_eq_card]
  congr 2
  apply List.filter_congr
  intro j hj
  by_cases hji : j = i
  · simp [hji]
  · rw [hspec j (List.mem_range.mp hj) hji]
    unfold singleSpec
    rw [List.getD_eq_getElem _ _ (by simpa using hk)]
    simp only [List.getElem_map, hji, ne_eq, not_false_eq_true, true_and]
    by_cases hany : ((tr L j).spikes.any fun b => decide (Coinc (tr L i).spikes (tr L j).spikes
        (trueMax (tr L i).ts (tr L i).te kw.maxTau) kw.mrts ((tr L i).spikes[k]) b)) = true
    · rw [if_pos hany]
      simp only [List.any_eq_true, decide_eq_true_eq] at hany
      simp [hany]
    · rw [if_neg hany]
      simp only [List.any_eq_true, decide_eq_true_eq] at hany
      simp [hany]

/-! ## 3. the filter keeps exactly the spikes whose count exceeds `thr * (N-1)` -/

/-- kept spikes of train `i`, on positions (cursor-free description) -/
def B6_keptSpec (kw : Kw) (thr : Q) (L : List Train) (i : Nat) : List Q :=
  (((tr L i).spikes.zip (coincCounts kw L i)).filter
    fun p => decide (p.2 > thr * ((L.length : Q) - 1))).map (·.1)

/-- removed spikes of train `i`, on positions -/
def B6_removedSpec (kw : Kw) (thr : Q) (L : List Train) (i : Nat) : List Q :=
  (((tr L i).spikes.zip (coincCounts kw L i)).filter
    fun p => decide (p.2 ≤ thr * ((L.length : Q) - 1))).map (·.1)

theorem B6_filter_fst (kw : Kw) (thr : Q) (L : List Train) (hr : kw.recon = false) :
    (filterBySync kw thr L).1 = (List.range L.length).map fun i =>
      Train.mk (B6_keptSpec kw thr L i) (tr L i).ts (tr L i).te := by
  unfold filterBySync prep B6_keptSpec
  simp [hr]

theorem B6_filter_snd (kw : Kw) (thr : Q) (L : List Train) (hr : kw.recon = false) :
    (filterBySync kw thr L).2 = (List.range L.length).map fun i =>
      Train.mk (B6_removedSpec kw thr L i) (tr L i).ts (tr L i).te := by
  unfold filterBySync prep B6_removedSpec
  simp [hr]

theorem B6_tr_map_range {n : Nat} (f : Nat → Train) (i : Nat) (hi : i < n) :
    tr ((List.range n).map f) i = f i := by
  unfold tr
  rw [List.getD_eq_getElem _ _ (by simpa using hi)]
  simp

/-- the kept train `i`, definitional form on positions -/
theorem B6_filter_kept_eq (kw : Kw) (thr : Q) (L : List Train) (hr : kw.recon = false) (i : Nat)
    (hi : i < L.length) :
    tr (filterBySync kw thr L).1 i = ⟨(((tr L i).spikes.zip (coincCounts kw L i)).filter
      fun p => decide (p.2 > thr * ((L.length : Q) - 1))).map (·.1), (tr L i).ts, (tr L i).te⟩ := by
  rw [B6_filter_fst kw thr L hr, B6_tr_map_range _ i hi]; rfl

/-- the removed train `i`, definitional form on positions -/
theorem B6_filter_removed_eq (kw : Kw) (thr : Q) (L : List Train) (hr : kw.recon = false) (i : Nat)
    (hi : i < L.length) :
    tr (filterBySync kw thr L).2 i = ⟨(((tr L i).spikes.zip (coincCounts kw L i)).filter
      fun p => decide (p.2 ≤ thr * ((L.length : Q) - 1))).map (·.1), (tr L i).ts, (tr L i).te⟩ := by
  rw [B6_filter_snd kw thr L hr, B6_tr_map_range _ i hi]; rfl

/-- membership in a zip-filter-map for duplicate-free first components -/
theorem B6_mem_zip_filter {β} (s : List Q) (c : List β) (P : β → Bool) (hl : c.length = s.length)
    (hn : s.Nodup) (k : Nat) (hk : k < s.length) :
    s[k] ∈ ((s.zip c).filter fun p => P p.2).map (·.1) ↔ P (c[k]'(by omega)) = true := by
  constructor
  · intro h
    obtain ⟨p, hp, hpk⟩ := List.mem_map.mp h
    obtain ⟨hpz, hP⟩ := List.mem_filter.mp hp
    obtain ⟨m, hm, rfl⟩ := List.getElem_of_mem hpz
    simp only [List.getElem_zip] at hpk hP
    have hm' : m < s.length := by simp at hm; omega
    have : m = k := (List.Nodup.getElem_inj_iff hn).mp hpk
    subst this
    exact hP
  · intro h
    apply List.mem_map.mpr
    refine ⟨(s[k], c[k]'(by omega)), List.mem_filter.mpr ⟨?_, h⟩, rfl⟩
    have hz : k < (s.zip c).length := by simp; omega
    have := List.getElem_mem hz
    simpa [List.getElem_zip] using this

theorem B6_strictSorted_nodup {s : List Q} (h : StrictSorted s) : s.Nodup :=
  List.Pairwise.imp (fun hab => ne_of_lt hab) h

/-- membership form, duplicate-free train: spike `k` is kept iff its count exceeds `thr * (N-1)` -/
theorem B6_filter_keep_iff_nodup (kw : Kw) (thr : Q) (L : List Train) (hr : kw.recon = false)
    (i : Nat) (hi : i < L.length) (hs : (tr L i).spikes.Nodup) (k : Nat)
    (hk : k < (tr L i).spikes.length) :
    (tr L i).spikes[k] ∈ (tr (filterBySync kw thr L).1 i).spikes ↔
      (coincCounts kw L i).getD k 0 > thr * ((L.length : Q) - 1) := by
  rw [B6_filter_kept_eq kw thr L hr i hi]
  have hl := coincCounts_length kw L i
  rw [B6_mem_zip_filter (tr L i).spikes (coincCounts kw L i)
    (fun c => decide (c > thr * ((L.length : Q) - 1))) hl hs k hk,
    List.getD_eq_getElem _ _ (by omega)]
  simp

/-- membership form for strictly sorted spikes (every valid train) -/
theorem filter_keep_iff (kw : Kw) (thr : Q) (L : List Train) (hr : kw.recon = false)
    (i : Nat) (hi : i < L.length) (hs : StrictSorted (tr L i).spikes) (k : Nat)
    (hk : k < (tr L i).spikes.length) :
    (tr L i).spikes[k] ∈ (tr (filterBySync kw thr L).1 i).spikes ↔
      (coincCounts kw L i).getD k 0 > thr * ((L.length : Q) - 1) :=
  B6_filter_keep_iff_nodup kw thr L hr i hi (B6_strictSorted_nodup hs) k hk

/-- companion: spike `k` is removed iff its count does not exceed `thr * (N-1)` -/
theorem B6_filter_remove_iff (kw : Kw) (thr : Q) (L : List Train) (hr : kw.recon = false)
    (i : Nat) (hi : i < L.length) (hs : StrictSorted (tr L i).spikes) (k : Nat)
    (hk : k < (tr L i).spikes.length) :
    (tr L i).spikes[k] ∈ (tr (filterBySync kw thr L).2 i).spikes ↔
      (coincCounts kw L i).getD k 0 ≤ thr * ((L.length : Q) - 1) := by
  rw [B6_filter_removed_eq kw thr L hr i hi]
  have hl := coincCounts_length kw L i
  rw [B6_mem_zip_filter (tr L i).spikes (coincCounts kw L i)
    (fun c => decide (c ≤ thr * ((L.length : Q) - 1))) hl (B6_strictSorted_nodup hs) k hk,
    List.getD_eq_getElem _ _ (by omega)]
  simp

/-- membership form without any assumption on the train: a value is kept iff it sits at SOME
    position whose count exceeds the threshold -/
theorem B6_filter_keep_mem (kw : Kw) (thr : Q) (L : List Train) (hr : kw.recon = false)
    (i : Nat) (hi : i < L.length) (x : Q) :
    x ∈ (tr (filterBySync kw thr L).1 i).spikes ↔
      ∃ k, ∃ _ : k < (tr L i).spikes.length, (tr L i).spikes[k] = x ∧
        (coincCounts kw L i).getD k 0 > thr * ((L.length : Q) - 1) := by
  rw [B6_filter_kept_eq kw thr L hr i hi]
  have hl := coincCounts_length kw L i
  constructor
  · intro h
    obtain ⟨p, hp, hpk⟩ := List.mem_map.mp h
    obtain ⟨hpz, hP⟩ := List.mem_filter.mp hp
    obtain ⟨m, hm, rfl⟩ := List.getElem_of_mem hpz
    have hm' : m < (tr L i).spikes.length := by simp at hm; omega
    refine ⟨m, hm', by simpa using hpk, ?_⟩
    rw [List.getD_eq_getElem _ _ (by omega)]
    simpa using hP
  · rintro ⟨k, hk, rfl, hc⟩
    rw [List.getD_eq_getElem _ _ (by omega)] at hc
    apply List.mem_map.mpr
    refine ⟨((tr L i).spikes[k], (coincCounts kw L i)[k]'(by omega)),
      List.mem_filter.mpr ⟨?_, by simpa using hc⟩, rfl⟩
    have hz : k < ((tr L i).spikes.zip (coincCounts kw L i)).length := by simp; omega
    have := List.getElem_mem hz
    simpa [List.getElem_zip] using this

/-! ## 4. kept and removed spikes partition the input train -/

theorem B6_zip_split {β} (s : List Q) (c : List β) (P : β → Bool) (hl : c.length = s.length) :
    (((s.zip c).filter fun p => P p.2).map (·.1)).Sublist s ∧
    (((s.zip c).filter fun p => !P p.2).map (·.1)).Sublist s ∧
    (((s.zip c).filter fun p => P p.2).map (·.1)).length +
      (((s.zip c).filter fun p => !P p.2).map (·.1)).length = s.length ∧
    (((s.zip c).filter fun p => P p.2).map (·.1) ++
      ((s.zip c).filter fun p => !P p.2).map (·.1)).Perm s := by
  have hz : (s.zip c).map (·.1) = s := List.map_fst_zip (by omega)
  refine ⟨?_, ?_, ?_, ?_⟩
  · conv => rhs; rw [← hz]
    exact (List.filter_sublist).map _
  · conv => rhs; rw [← hz]
    exact (List.filter_sublist).map _
  · have h := (List.filter_append_perm (fun p : Q × β => P p.2) (s.zip c)).length_eq
    simp only [List.length_append] at h
    simp only [List.length_map]
    rw [h]; simp; omega
  · rw [← List.map_append]
    conv => rhs; rw [← hz]
    exact (List.filter_append_perm (fun p : Q × β => P p.2) (s.zip c)).map _

theorem B6_removed_pred (t : Q) :
    (fun p : Q × Q => decide (p.2 ≤ t)) = fun p => !(fun c : Q => decide (c > t)) p.2 := by
  funext p
  by_cases h : p.2 ≤ t
  · simp [h]
  · simp [h, lt_of_not_ge h]

/-- number of output trains -/
theorem B6_filter_lengths (kw : Kw) (thr : Q) (L : List Train) (hr : kw.recon = false) :
    (filterBySync kw thr L).1.length = L.length ∧ (filterBySync kw thr L).2.length = L.length := by
  rw [B6_filter_fst kw thr L hr, B6_filter_snd kw thr L hr]; simp

/-- kept and removed spikes of train `i` interleave to the input train -/
theorem filter_partition (kw : Kw) (thr : Q) (L : List Train) (hr : kw.recon = false)
    (i : Nat) (hi : i < L.length) :
    (tr (filterBySync kw thr L).1 i).spikes.Sublist (tr L i).spikes ∧
    (tr (filterBySync kw thr L).2 i).spikes.Sublist (tr L i).spikes ∧
    (tr (filterBySync kw thr L).1 i).spikes.length + (tr (filterBySync kw thr L).2 i).spikes.length
      = (tr L i).spikes.length ∧
    ((tr (filterBySync kw thr L).1 i).spikes ++ (tr (filterBySync kw thr L).2 i).spikes).Perm
      (tr L i).spikes ∧
    (tr (filterBySync kw thr L).1 i).ts = (tr L i).ts ∧
    (tr (filterBySync kw thr L).1 i).te = (tr L i).te ∧
    (tr (filterBySync kw thr L).2 i).ts = (tr L i).ts ∧
    (tr (filterBySync kw thr L).2 i).te = (tr L i).te ∧
    (filterBySync kw thr L).1.length = L.length ∧ (filterBySync kw thr L).2.length = L.length := by
  rw [B6_filter_kept_eq kw thr L hr i hi, B6_filter_removed_eq kw thr L hr i hi]
  simp only
  rw [B6_removed_pred]
  obtain ⟨h1, h2, h3, h4⟩ := B6_zip_split (tr L i).spikes (coincCounts kw L i)
    (fun c => decide (c > thr * ((L.length : Q) - 1))) (coincCounts_length kw L i)
  exact ⟨h1, h2, h3, h4, trivial, trivial, trivial, trivial, B6_filter_lengths kw thr L hr⟩

/-- every spike value occurs in the kept or in the removed train, and nothing else does -/
theorem B6_filter_partition_mem (kw : Kw) (thr : Q) (L : List Train) (hr : kw.recon = false)
    (i : Nat) (hi : i < L.length) (x : Q) :
    x ∈ (tr L i).spikes ↔
      x ∈ (tr (filterBySync kw thr L).1 i).spikes ∨ x ∈ (tr (filterBySync kw thr L).2 i).spikes := by
  rw [← (filter_partition kw thr L hr i hi).2.2.2.1.mem_iff, List.mem_append]

/-- for a duplicate-free train no spike is both kept and removed -/
theorem B6_filter_partition_disjoint (kw : Kw) (thr : Q) (L : List Train) (hr : kw.recon = false)
    (i : Nat) (hi : i < L.length) (hs : StrictSorted (tr L i).spikes) (x : Q)
    (h1 : x ∈ (tr (filterBySync kw thr L).1 i).spikes) :
    x ∉ (tr (filterBySync kw thr L).2 i).spikes := by
  have hp := (filter_partition kw thr L hr i hi).2.2.2.1
  have hn : ((tr (filterBySync kw thr L).1 i).spikes ++
      (tr (filterBySync kw thr L).2 i).spikes).Nodup :=
    hp.nodup_iff.mpr (B6_strictSorted_nodup hs)
  exact fun h2 => (List.nodup_append.mp hn).2.2 x h1 x h2 rfl

/-- sublists of a strictly sorted train are strictly sorted: both outputs are valid spike lists -/
theorem B6_filter_sorted (kw : Kw) (thr : Q) (L : List Train) (hr : kw.recon = false)
    (i : Nat) (hi : i < L.length) (hs : StrictSorted (tr L i).spikes) :
    StrictSorted (tr (filterBySync kw thr L).1 i).spikes ∧
    StrictSorted (tr (filterBySync kw thr L).2 i).spikes :=
  ⟨List.Pairwise.sublist (filter_partition kw thr L hr i hi).1 hs,
   List.Pairwise.sublist (filter_partition kw thr L hr i hi).2.1 hs⟩

/-! ## 5. a higher threshold never keeps more -/

theorem filter_antitone_thr (kw : Kw) (thr1 thr2 : Q) (L : List Train) (hr : kw.recon = false)
    (h12 : thr1 ≤ thr2) (i : Nat) (hi : i < L.length) :
    (tr (filterBySync kw thr2 L).1 i).spikes.Sublist (tr (filterBySync kw thr1 L).1 i).spikes := by
  rw [B6_filter_kept_eq kw thr1 L hr i hi, B6_filter_kept_eq kw thr2 L hr i hi]
  simp only
  apply List.Sublist.map
  apply List.monotone_filter_right
  intro p hp
  simp only [decide_eq_true_eq] at hp ⊢
  have hn : (0 : Q) ≤ (L.length : Q) - 1 := by
    have : (1 : Q) ≤ (L.length : Q) := by exact_mod_cast (by omega : 1 ≤ L.length)
    linarith
  have := mul_le_mul_of_nonneg_right h12 hn
  exact lt_of_le_of_lt this hp

/-- dually, a higher threshold never removes less -/
theorem B6_filter_monotone_thr_removed (kw : Kw) (thr1 thr2 : Q) (L : List Train)
    (hr : kw.recon = false) (h12 : thr1 ≤ thr2) (i : Nat) (hi : i < L.length) :
    (tr (filterBySync kw thr1 L).2 i).spikes.Sublist (tr (filterBySync kw thr2 L).2 i).spikes := by
  rw [B6_filter_removed_eq kw thr1 L hr i hi, B6_filter_removed_eq kw thr2 L hr i hi]
  simp only
  apply List.Sublist.map
  apply List.monotone_filter_right
  intro p hp
  simp only [decide_eq_true_eq] at hp ⊢
  have hn : (0 : Q) ≤ (L.length : Q) - 1 := by
    have : (1 : Q) ≤ (L.length : Q) := by exact_mod_cast (by omega : 1 ≤ L.length)
    linarith
  have := mul_le_mul_of_nonneg_right h12 hn
  exact le_trans hp this

/-! ## 6. extreme thresholds -/

/-- with `thr ≥ 1` nothing is kept (a count never exceeds `N-1`) -/
theorem filter_thr_one_none (kw : Kw) (thr : Q) (L : List Train) (hr : kw.recon = false)
    (h1 : 1 ≤ thr) (i : Nat) (hi : i < L.length) :
    (tr (filterBySync kw thr L).1 i).spikes = [] ∧
    (tr (filterBySync kw thr L).2 i).spikes = (tr L i).spikes := by
  have hk : (tr (filterBySync kw thr L).1 i).spikes = [] := by
    rw [B6_filter_kept_eq kw thr L hr i hi]
    simp only [List.map_eq_nil_iff, List.filter_eq_nil_iff]
    intro p hp
    have hb := B6_coincCounts_bounds kw L i p.2 (List.of_mem_zip hp).2
    simp only [decide_eq_true_eq, not_lt]
    have hn : (0 : Q) ≤ (L.length : Q) - 1 := le_trans hb.1 hb.2
    have := mul_le_mul_of_nonneg_right h1 hn
    linarith [hb.2]
  refine ⟨hk, ?_⟩
  obtain ⟨_, h2, h3, _⟩ := filter_partition kw thr L hr i hi
  rw [hk] at h3
  exact h2.eq_of_length (by simpa using h3)

/-- with `thr < 0` and at least two trains every spike is kept (a count is never negative).
    For a single train `N-1 = 0`, the test is `count > 0` and nothing is kept: see
    `B6_filter_single_none`. -/
theorem filter_thr_neg_all (kw : Kw) (thr : Q) (L : List Train) (hr : kw.recon = false)
    (h0 : thr < 0) (hN : 2 ≤ L.length) (i : Nat) (hi : i < L.length) :
    (tr (filterBySync kw thr L).1 i).spikes = (tr L i).spikes ∧
    (tr (filterBySync kw thr L).2 i).spikes = [] := by
  have hk : (tr (filterBySync kw thr L).2 i).spikes = [] := by
    rw [B6_filter_removed_eq kw thr L hr i hi]
    simp only [List.map_eq_nil_iff, List.filter_eq_nil_iff]
    intro p hp
    have hb := B6_coincCounts_bounds kw L i p.2 (List.of_mem_zip hp).2
    simp only [decide_eq_true_eq, not_le]
    have hn : (0 : Q) < (L.length : Q) - 1 := by
      have : (2 : Q) ≤ (L.length : Q) := by exact_mod_cast hN
      linarith
    have := mul_neg_of_neg_of_pos h0 hn
    linarith [hb.1]
  refine ⟨?_, hk⟩
  obtain ⟨h1, _, h3, _⟩ := filter_partition kw thr L hr i hi
  rw [hk] at h3
  exact h1.eq_of_length (by simpa using h3)

/-- a single train: whatever the threshold, nothing is kept (`count = 0 > thr * 0` fails) -/
theorem B6_filter_single_none (kw : Kw) (thr : Q) (L : List Train) (hr : kw.recon = false)
    (hN : L.length = 1) (i : Nat) (hi : i < L.length) :
    (tr (filterBySync kw thr L).1 i).spikes = [] := by
  rw [B6_filter_kept_eq kw thr L hr i hi]
  simp only [List.map_eq_nil_iff, List.filter_eq_nil_iff]
  intro p hp
  have hb := B6_coincCounts_bounds kw L i p.2 (List.of_mem_zip hp).2
  simp only [decide_eq_true_eq, not_lt]
  rw [hN] at hb ⊢
  simp at hb ⊢
  linarith [hb.2]

/-! ## concrete instances of the hypotheses and of the statements -/

/-- three valid trains on `[0, 10]` -/
def B6_exL : List Train := [⟨[1, 5, 9], 0, 10⟩, ⟨[1, 6, 8], 0, 10⟩, ⟨[1, 4, 9], 0, 10⟩]
def B6_exKw : Kw := { recon := false }

example : B6_exKw.recon = false := rfl
example : 1 < B6_exL.length ∧ 2 ≤ B6_exL.length := by decide
example : StrictSorted (tr B6_exL 1).spikes := by
  simp [StrictSorted, tr, B6_exL]; norm_num
example : 1 < (tr B6_exL 1).spikes.length := by decide
example : ∀ j, j < B6_exL.length → j ≠ 0 →
    coincSingle (tr B6_exL 0).spikes (tr B6_exL j).spikes (tr B6_exL 0).ts (tr B6_exL 0).te
      B6_exKw.maxTau B6_exKw.mrts
    = singleSpec (tr B6_exL 0).spikes (tr B6_exL j).spikes
        (trueMax (tr B6_exL 0).ts (tr B6_exL 0).te B6_exKw.maxTau) B6_exKw.mrts := by
  decide +kernel
example : coincCounts B6_exKw B6_exL 0 = [2, 1, 1] := by decide +kernel
example : coincCounts B6_exKw B6_exL 1 = [2, 0, 0] := by decide +kernel
-- threshold 3/4: only the spike at 1 (coincident with both other trains, 2 > 3/4 * 2) survives
example : filterBySync B6_exKw (3/4) B6_exL =
    ([⟨[1], 0, 10⟩, ⟨[1], 0, 10⟩, ⟨[1], 0, 10⟩],
     [⟨[5, 9], 0, 10⟩, ⟨[6, 8], 0, 10⟩, ⟨[4, 9], 0, 10⟩]) := by decide +kernel
-- threshold 1/4: everything with at least one coincidence survives
example : (filterBySync B6_exKw (1/4) B6_exL).1 =
    [⟨[1, 5, 9], 0, 10⟩, ⟨[1], 0, 10⟩, ⟨[1, 4, 9], 0, 10⟩] := by decide +kernel
example : (1 / 4 : Q) ≤ 3 / 4 := by norm_num
example : (1 : Q) ≤ 1 ∧ (-1 : Q) < 0 := by norm_num
-- the single-train corner case of `filter_thr_neg_all`
example : filterBySync B6_exKw (-1) [⟨[1, 5, 9], 0, 10⟩] =
    ([⟨[], 0, 10⟩], [⟨[1, 5, 9], 0, 10⟩]) := by decide +kernel

theorem B6_ex_sorted (i : Nat) : StrictSorted (tr B6_exL i).spikes := by
  unfold StrictSorted
  match i with
  | 0 => simp [tr, B6_exL]; norm_num
  | 1 => simp [tr, B6_exL]; norm_num
  | 2 => simp [tr, B6_exL]; norm_num
  | n + 3 => simp [tr, B6_exL, default]

-- the main theorems instantiated at the concrete input
example := filter_keep_iff B6_exKw (3/4) B6_exL rfl 1 (by decide) (B6_ex_sorted 1) 0 (by decide)
example := B6_filter_remove_iff B6_exKw (3/4) B6_exL rfl 1 (by decide) (B6_ex_sorted 1) 2 (by decide)
example := filter_partition B6_exKw (3/4) B6_exL rfl 2 (by decide)
example := filter_antitone_thr B6_exKw (1/4) (3/4) B6_exL rfl (by norm_num) 0 (by decide)
example := filter_thr_one_none B6_exKw 1 B6_exL rfl (le_refl 1) 0 (by decide)
example := filter_thr_neg_all B6_exKw (-1) B6_exL rfl (by norm_num) (by decide) 0 (by decide)

/-! ## 7. C18-style shape facts -/
section Shapes

/-- times of the framed profile: `ts`, the entry times, `te` -/
theorem B6_frameProfile_times (ts te : Q) (es : List (Q × Q × Q)) :
    (frameProfile ts te es).map (·.1) = ts :: es.map (·.1) ++ [te] := by
  cases es with
  | nil => rfl
  | cons f r => simp [frameProfile]

theorem B6_frameProfile_length_nil (ts te : Q) : (frameProfile ts te []).length = 2 := rfl

theorem B6_frameProfile_length (ts te : Q) (es : List (Q × Q × Q)) (hne : es ≠ []) :
    (frameProfile ts te es).length = es.length + 2 := by
  cases es with
  | nil => exact absurd rfl hne
  | cons f r => simp [frameProfile]

/-- at least the two edge entries -/
theorem B6_frameProfile_length_ge (ts te : Q) (es : List (Q × Q × Q)) :
    2 ≤ (frameProfile ts te es).length := by
  cases es with
  | nil => simp [frameProfile]
  | cons f r => rw [B6_frameProfile_length _ _ _ (by simp)]; omega

theorem B6_frameProfile_ne_nil (ts te : Q) (es : List (Q × Q × Q)) : frameProfile ts te es ≠ [] := by
  intro h
  have := B6_frameProfile_length_ge ts te es
  rw [h] at this
  simp at this

/-- the first time is `ts` -/
theorem B6_frameProfile_head (ts te : Q) (es : List (Q × Q × Q)) :
    (frameProfile ts te es).head?.map (·.1) = some ts := by
  cases es with
  | nil => rfl
  | cons f r => rfl

/-- the first entry copies value and multiplicity of the first spike entry (1, 1 if none) -/
theorem B6_frameProfile_head_entry (ts te : Q) (es : List (Q × Q × Q)) :
    (frameProfile ts te es).head? =
      some (ts, (es.head?.map (·.2.1)).getD 1, (es.head?.map (·.2.2)).getD 1) := by
  cases es with
  | nil => rfl
  | cons f r => rfl

theorem B6_lastD_eq_getLast {α} : ∀ (l : List α) (d : α) (h : l ≠ []), lastD l d = l.getLast h
  | [], _, h => absurd rfl h
  | [a], _, _ => rfl
  | a :: b :: r, d, _ => by
    rw [lastD, B6_lastD_eq_getLast (b :: r) d (by simp)]
    exact (List.getLast_cons (List.cons_ne_nil b r)).symm

/-- the last entry copies value and multiplicity of the last spike entry (1, 1 if none) -/
theorem B6_frameProfile_last_entry (ts te : Q) (es : List (Q × Q × Q)) :
    (frameProfile ts te es).getLast? =
      some (te, (es.getLast?.map (·.2.1)).getD 1, (es.getLast?.map (·.2.2)).getD 1) := by
  cases es with
  | nil => rfl
  | cons f r =>
    have h : frameProfile ts te (f :: r) = ((ts, f.2.1, f.2.2) :: f :: r) ++
        [(te, (lastD (f :: r) f).2.1, (lastD (f :: r) f).2.2)] := rfl
    rw [h, List.getLast?_concat, B6_lastD_eq_getLast (f :: r) f (by simp),
      List.getLast?_eq_some_getLast (by simp : f :: r ≠ [])]
    rfl

/-- the last time is `te` -/
theorem B6_frameProfile_last (ts te : Q) (es : List (Q × Q × Q)) :
    (frameProfile ts te es).getLast?.map (·.1) = some te := by
  rw [B6_frameProfile_last_entry]; rfl

/-- entry times sorted (≤) within `[ts, te]` ⇒ the framed list is sorted (≤) -/
theorem B6_frameProfile_sorted (ts te : Q) (es : List (Q × Q × Q)) (hle : ts ≤ te)
    (hs : (es.map (·.1)).Pairwise (· ≤ ·)) (hb : ∀ e ∈ es, ts ≤ e.1 ∧ e.1 ≤ te) :
    ((frameProfile ts te es).map (·.1)).Pairwise (· ≤ ·) := by
  rw [B6_frameProfile_times]
  rw [List.cons_append, List.pairwise_cons, List.pairwise_append]
  refine ⟨?_, hs, by simp, ?_⟩
  · intro x hx
    rcases List.mem_append.mp hx with hx | hx
    · obtain ⟨e, he, rfl⟩ := List.mem_map.mp hx
      exact (hb e he).1
    · simp at hx; rw [hx]; exact hle
  · intro x hx y hy
    obtain ⟨e, he, rfl⟩ := List.mem_map.mp hx
    simp at hy; rw [hy]; exact (hb e he).2

/-- strict version: entry times strictly increasing strictly inside `(ts, te)` -/
theorem B6_frameProfile_strictSorted (ts te : Q) (es : List (Q × Q × Q)) (hlt : ts < te)
    (hs : (es.map (·.1)).Pairwise (· < ·)) (hb : ∀ e ∈ es, ts < e.1 ∧ e.1 < te) :
    ((frameProfile ts te es).map (·.1)).Pairwise (· < ·) := by
  rw [B6_frameProfile_times]
  rw [List.cons_append, List.pairwise_cons, List.pairwise_append]
  refine ⟨?_, hs, by simp, ?_⟩
  · intro x hx
    rcases List.mem_append.mp hx with hx | hx
    · obtain ⟨e, he, rfl⟩ := List.mem_map.mp hx
      exact (hb e he).1
    · simp at hx; rw [hx]; exact hlt
  · intro x hx y hy
    obtain ⟨e, he, rfl⟩ := List.mem_map.mp hx
    simp at hy; rw [hy]; exact (hb e he).2

example : frameProfile 0 10 [(1, 1, 1), (5, 0, 1), (9, 2, 2)] =
    [(0, 1, 1), (1, 1, 1), (5, 0, 1), (9, 2, 2), (10, 2, 2)] := by decide +kernel
example : (([(1, 1, 1), (5, 0, 1), (9, 2, 2)] : List (Q × Q × Q)).map (·.1)).Pairwise (· ≤ ·) ∧
    ∀ e ∈ ([(1, 1, 1), (5, 0, 1), (9, 2, 2)] : List (Q × Q × Q)), (0 : Q) ≤ e.1 ∧ e.1 ≤ 10 := by
  constructor
  · simp; norm_num
  · simp; norm_num

/-- the SPIKE-Sync and spike-order profiles always carry the two edge entries, first time
    `t_start`, last time `t_end` -/
theorem B6_coincProfile_shape (s1 s2 : List Q) (ts te maxTau mrts : Q) :
    2 ≤ (coincProfile s1 s2 ts te maxTau mrts).length ∧
    (coincProfile s1 s2 ts te maxTau mrts).head?.map (·.1) = some ts ∧
    (coincProfile s1 s2 ts te maxTau mrts).getLast?.map (·.1) = some te :=
  ⟨B6_frameProfile_length_ge _ _ _, B6_frameProfile_head _ _ _, B6_frameProfile_last _ _ _⟩

theorem B6_orderProfile_shape (s1 s2 : List Q) (ts te maxTau mrts : Q) :
    2 ≤ (orderProfile s1 s2 ts te maxTau mrts).length ∧
    (orderProfile s1 s2 ts te maxTau mrts).head?.map (·.1) = some ts ∧
    (orderProfile s1 s2 ts te maxTau mrts).getLast?.map (·.1) = some te :=
  ⟨B6_frameProfile_length_ge _ _ _, B6_frameProfile_head _ _ _, B6_frameProfile_last _ _ _⟩

/-- `Pwc` shape of the ISI profile: one value per interval — unconditionally (for valid trains
    this is also the first component of `isiProfile_matches` in Proofs/Isi.lean) -/
theorem B6_isiProfile_shape (s1 s2 : List Q) (ts te m : Q) :
    (isiProfile s1 s2 ts te m).2.length + 1 = (isiProfile s1 s2 ts te m).1.length := by
  have hne := isiEvents_ne s1 s2 ts te m
  have hpos : 0 < (isiEvents s1 s2 ts te m).length := List.length_pos_iff.mpr hne
  unfold isiProfile finishPwc
  split
  · simp; omega
  · simp

theorem B6_isiProfileBi_shape (kw : Kw) (a b : Train) :
    (isiProfileBi kw a b).y.length + 1 = (isiProfileBi kw a b).x.length := by
  unfold isiProfileBi
  exact B6_isiProfile_shape _ _ _ _ _

/-- the ISI profile starts at `t_start` and ends at `t_end` -/
theorem B6_isiProfile_ends (s1 s2 : List Q) (ts te m : Q) :
    (isiProfile s1 s2 ts te m).1.head? = some ts ∧ (isiProfile s1 s2 ts te m).1.getLast? = some te := by
  unfold isiProfile finishPwc
  split
  · rename_i h
    refine ⟨by simp [isiEvents], ?_⟩
    simpa [List.getLast?_map] using h
  · refine ⟨by simp [isiEvents], by simp⟩

/-- `Pwl` shape of the SPIKE profile: one left and one right value per interval, unconditionally -/
theorem B6_spikeProfile_shape (t1 t2 : List Q) (ts te m : Q) (ri : Bool) :
    (spikeProfile t1 t2 ts te m ri).2.1.length + 1 = (spikeProfile t1 t2 ts te m ri).1.length ∧
    (spikeProfile t1 t2 ts te m ri).2.2.length + 1 = (spikeProfile t1 t2 ts te m ri).1.length := by
  unfold spikeProfile
  simp only
  split <;> simp

theorem B6_spikeProfileBi_shape (kw : Kw) (a b : Train) :
    (spikeProfileBi kw a b).y1.length + 1 = (spikeProfileBi kw a b).x.length ∧
    (spikeProfileBi kw a b).y2.length + 1 = (spikeProfileBi kw a b).x.length := by
  unfold spikeProfileBi
  exact B6_spikeProfile_shape _ _ _ _ _ _

/-- the SPIKE profile starts at `t_start` and ends at `t_end` -/
theorem B6_spikeProfile_ends (t1 t2 : List Q) (ts te m : Q) (ri : Bool) :
    (spikeProfile t1 t2 ts te m ri).1.head? = some ts ∧
    (spikeProfile t1 t2 ts te m ri).1.getLast? = some te := by
  unfold spikeProfile
  simp only
  split
  · rename_i h
    exact ⟨rfl, h⟩
  · exact ⟨rfl, List.getLast?_concat⟩

example : isiProfile [1, 4, 9] [2, 6] 0 10 0 =
    ([0, 1, 2, 4, 6, 9, 10], [1/4, 1/4, 1/4, 1/5, 1/5, 1/5]) := by decide +kernel
example : spikeProfile [1, 4, 9] [2, 6] 0 10 0 false =
    ([0, 1, 2, 4, 6, 9, 10], [2/7, 2/7, 50/147, 31/81, 164/405, 28/81],
      [2/7, 50/147, 25/49, 164/405, 28/81, 28/81]) := by decide +kernel

end Shapes

end PySpike
