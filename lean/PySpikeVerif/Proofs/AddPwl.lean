/-
  Proofs/AddPwl.lean — adding piecewise-linear profiles (property C09):
  `Pwl.add` (model of `add_piece_wise_lin_python`) of two well-formed operands with the same end
  points is well-formed, has the union of the breakpoints, its one-sided limits at every time are
  the sums of the operands' one-sided limits, its integral is the sum of the integrals; scaling.
-/
import PySpikeVerif.Spec.Funcs
import PySpikeVerif.Proofs.FuncLaws
import Mathlib.Data.List.Basic
import Mathlib.Data.List.Sort

namespace PySpike

/-! ## linear pieces -/

theorem Piece.at_affine (q : Piece) (t : Q) :
    q.at t = (q.yl - (q.yr - q.yl) / (q.xr - q.xl) * q.xl) + (q.yr - q.yl) / (q.xr - q.xl) * t := by
  unfold Piece.at; ring

theorem Piece.at_xl (q : Piece) : q.at q.xl = q.yl := by
  unfold Piece.at; simp

theorem Piece.at_xr (q : Piece) (h : q.xl < q.xr) : q.at q.xr = q.yr := by
  unfold Piece.at
  have : q.xr - q.xl ≠ 0 := by linarith
  field_simp; ring

/-- interpolating between two values of an affine function gives the affine function -/
theorem interp_affine (A B xl xr t : Q) (h : xl < xr) :
    (A + B * xl) + ((A + B * xr) - (A + B * xl)) * (t - xl) / (xr - xl) = A + B * t := by
  have : xr - xl ≠ 0 := by linarith
  field_simp; ring

/-- `p` is, on its own interval, the sum of the linear pieces `q1` and `q2` -/
structure PieceSum (p q1 q2 : Piece) : Prop where
  l1 : q1.xl ≤ p.xl
  r1 : p.xr ≤ q1.xr
  l2 : q2.xl ≤ p.xl
  r2 : p.xr ≤ q2.xr
  yl : p.yl = q1.at p.xl + q2.at p.xl
  yr : p.yr = q1.at p.xr + q2.at p.xr

/-- restricting linear pieces to a sub-interval and interpolating again gives the same value -/
theorem PieceSum.at_eq {p q1 q2 : Piece} (h : PieceSum p q1 q2) (hp : p.xl < p.xr) (t : Q) :
    p.at t = q1.at t + q2.at t := by
  have e : p.at t = p.yl + (p.yr - p.yl) * (t - p.xl) / (p.xr - p.xl) := rfl
  rw [e, h.yl, h.yr]
  simp only [Piece.at_affine q1, Piece.at_affine q2]
  generalize (q1.yr - q1.yl) / (q1.xr - q1.xl) = B1
  generalize (q2.yr - q2.yl) / (q2.xr - q2.xl) = B2
  generalize q1.yl - B1 * q1.xl = A1
  generalize q2.yl - B2 * q2.xl = A2
  have := interp_affine (A1 + A2) (B1 + B2) p.xl p.xr t hp
  have h0 : p.xr - p.xl ≠ 0 := by linarith
  field_simp at this ⊢
  linarith

/-! ## chains of pieces -/

/-- contiguous non-degenerate pieces -/
def PLChain : List Piece → Prop
  | [] => True
  | c :: r => c.xl < c.xr ∧ (∀ p ∈ r.head?, c.xr = p.xl) ∧ PLChain r

/-- right end of the last piece (`d` for the empty list) -/
def pEndX (d : Q) : List Piece → Q
  | [] => d
  | c :: r => pEndX c.xr r

/-- right value of the last piece -/
def pEndY (d : Q) : List Piece → Q
  | [] => d
  | c :: r => pEndY c.yr r

@[simp] theorem chain_cons_cons (c p : Piece) (r : List Piece) :
    PLChain (c :: p :: r) ↔ c.xl < c.xr ∧ c.xr = p.xl ∧ PLChain (p :: r) := by
  simp [PLChain]

@[simp] theorem chain_single (c : Piece) : PLChain [c] ↔ c.xl < c.xr := by
  simp [PLChain]

theorem PLChain.tail {c : Piece} {r : List Piece} (h : PLChain (c :: r)) : PLChain r := h.2.2

theorem PLChain.head_lt {c : Piece} {r : List Piece} (h : PLChain (c :: r)) : c.xl < c.xr := h.1

theorem PLChain.lt_endX : ∀ {r : List Piece} {c : Piece}, PLChain (c :: r) → c.xl < pEndX c.xr r
  | [], c, h => by simpa [pEndX] using h
  | p :: r, c, h => by
    rw [chain_cons_cons] at h
    have := PLChain.lt_endX h.2.2
    simp only [pEndX]
    linarith

theorem PLChain.xr_le_endX : ∀ {r : List Piece} {c : Piece}, PLChain (c :: r) → c.xr ≤ pEndX c.xr r
  | [], c, h => by simp [pEndX]
  | p :: r, c, h => by
    rw [chain_cons_cons] at h
    have := PLChain.lt_endX h.2.2
    simp only [pEndX]
    linarith

theorem PLChain.xr_lt_endX {c p : Piece} {r : List Piece} (h : PLChain (c :: p :: r)) :
    c.xr < pEndX c.xr (p :: r) := by
  rw [chain_cons_cons] at h
  have := PLChain.lt_endX h.2.2
  simp only [pEndX]
  linarith

/-- all later pieces lie to the right -/
theorem PLChain.le_of_mem : ∀ {r : List Piece} {c : Piece}, PLChain (c :: r) → ∀ p ∈ r, c.xr ≤ p.xl
  | [], c, h, p, hp => by simp at hp
  | q :: r, c, h, p, hp => by
    rw [chain_cons_cons] at h
    rcases List.mem_cons.mp hp with hp | hp
    · rw [hp, h.2.1]
    · have := PLChain.le_of_mem h.2.2 p hp
      have := h.2.2.head_lt
      linarith

theorem PLChain.mem_lt : ∀ {l : List Piece}, PLChain l → ∀ p ∈ l, p.xl < p.xr
  | [], h, p, hp => by simp at hp
  | c :: r, h, p, hp => by
    rcases List.mem_cons.mp hp with hp | hp
    · rw [hp]; exact h.1
    · exact PLChain.mem_lt h.2.2 p hp

/-- the piece containing `t` (right-continuous convention) is unique -/
theorem PLChain.findR : ∀ {l : List Piece}, PLChain l → ∀ p ∈ l, ∀ t, p.xl ≤ t → t < p.xr →
    l.find? (fun p => decide (p.xl ≤ t ∧ t < p.xr)) = some p
  | [], h, p, hp, t, h1, h2 => by simp at hp
  | c :: r, h, p, hp, t, h1, h2 => by
    rw [List.find?_cons]
    rcases List.mem_cons.mp hp with hp | hp
    · subst hp; simp [h1, h2]
    · have := PLChain.le_of_mem h p hp
      have hn : ¬ (c.xl ≤ t ∧ t < c.xr) := by intro hc; linarith [hc.2]
      simp only [hn, decide_false]
      exact PLChain.findR h.2.2 p hp t h1 h2

theorem PLChain.findL : ∀ {l : List Piece}, PLChain l → ∀ p ∈ l, ∀ t, p.xl < t → t ≤ p.xr →
    l.find? (fun p => decide (p.xl < t ∧ t ≤ p.xr)) = some p
  | [], h, p, hp, t, h1, h2 => by simp at hp
  | c :: r, h, p, hp, t, h1, h2 => by
    rw [List.find?_cons]
    rcases List.mem_cons.mp hp with hp | hp
    · subst hp; simp [h1, h2]
    · have := PLChain.le_of_mem h p hp
      have hn : ¬ (c.xl < t ∧ t ≤ c.xr) := by intro hc; linarith [hc.2]
      simp only [hn, decide_false]
      exact PLChain.findL h.2.2 p hp t h1 h2

/-- a chain covers `[start, end)` -/
theorem PLChain.coverR : ∀ {r : List Piece} {c : Piece}, PLChain (c :: r) → ∀ t, c.xl ≤ t →
    t < pEndX c.xr r → ∃ p ∈ c :: r, p.xl ≤ t ∧ t < p.xr
  | [], c, h, t, h1, h2 => ⟨c, by simp, h1, by simpa [pEndX] using h2⟩
  | q :: r, c, h, t, h1, h2 => by
    by_cases hc : t < c.xr
    · exact ⟨c, by simp, h1, hc⟩
    · rw [chain_cons_cons] at h
      obtain ⟨p, hp, hp1, hp2⟩ := PLChain.coverR h.2.2 t (by linarith [h.2.1]) (by simpa [pEndX] using h2)
      exact ⟨p, List.mem_cons_of_mem _ hp, hp1, hp2⟩

/-- a chain covers `(start, end]` -/
theorem PLChain.coverL : ∀ {r : List Piece} {c : Piece}, PLChain (c :: r) → ∀ t, c.xl < t →
    t ≤ pEndX c.xr r → ∃ p ∈ c :: r, p.xl < t ∧ t ≤ p.xr
  | [], c, h, t, h1, h2 => ⟨c, by simp, h1, by simpa [pEndX] using h2⟩
  | q :: r, c, h, t, h1, h2 => by
    by_cases hc : t ≤ c.xr
    · exact ⟨c, by simp, h1, hc⟩
    · rw [chain_cons_cons] at h
      obtain ⟨p, hp, hp1, hp2⟩ := PLChain.coverL h.2.2 t (by linarith [h.2.1]) (by simpa [pEndX] using h2)
      exact ⟨p, List.mem_cons_of_mem _ hp, hp1, hp2⟩

theorem PLChain.xr_lt_of_mem {c : Piece} {r : List Piece} (h : PLChain (c :: r)) :
    ∀ p ∈ r, c.xr < p.xr := fun p hp =>
  lt_of_le_of_lt (h.le_of_mem p hp) (h.tail.mem_lt p hp)

/-- breakpoints of a chain are strictly increasing -/
theorem PLChain.sorted : ∀ {l : List Piece} {x0 : Q}, PLChain l → (∀ p ∈ l.head?, x0 = p.xl) →
    (x0 :: l.map (·.xr)).Pairwise (· < ·)
  | [], x0, h, h0 => by simp
  | c :: r, x0, h, h0 => by
    have hx : x0 = c.xl := h0 c (by simp)
    have ih := PLChain.sorted (x0 := c.xr) h.tail h.2.1
    rw [List.map_cons, List.pairwise_cons]
    refine ⟨?_, ih⟩
    intro y hy
    rcases List.mem_cons.mp hy with hy | hy
    · rw [hy, hx]; exact h.1
    · have := (List.pairwise_cons.mp ih).1 y hy
      have := h.1
      linarith

/-! ## representations and chains -/

/-- the representation whose pieces are `l` (starting at `x0`) -/
def Pwl.ofPieces (x0 : Q) (l : List Piece) : Pwl :=
  ⟨x0 :: l.map (·.xr), l.map (·.yl), l.map (·.yr)⟩

theorem Pwl.pieces_cons (a b u v : Q) (xs y1 y2 : List Q) :
    (Pwl.mk (a :: b :: xs) (u :: y1) (v :: y2)).pieces
      = ⟨a, b, u, v⟩ :: (Pwl.mk (b :: xs) y1 y2).pieces := by
  simp [Pwl.pieces]

theorem lastD_cons_cons_A2 {α} (a b : α) (r : List α) (d : α) : lastD (a :: b :: r) d = lastD (b :: r) d := rfl

/-- structure of the pieces of a well-formed representation (list form) -/
theorem pieces_of_lists : ∀ (xs y1 y2 : List Q) (a d : Q), y1.length = xs.length →
    y2.length = xs.length → (a :: xs).Pairwise (· < ·) →
    PLChain (Pwl.mk (a :: xs) y1 y2).pieces ∧
    (∀ p ∈ (Pwl.mk (a :: xs) y1 y2).pieces.head?, a = p.xl) ∧
    pEndX a (Pwl.mk (a :: xs) y1 y2).pieces = lastD (a :: xs) 0 ∧
    pEndY d (Pwl.mk (a :: xs) y1 y2).pieces = lastD (d :: y2) 0 ∧
    Pwl.mk (a :: xs) y1 y2 = Pwl.ofPieces a (Pwl.mk (a :: xs) y1 y2).pieces ∧
    (Pwl.mk (a :: xs) y1 y2).pieces.length = xs.length
  | [], y1, y2, a, d, h1, h2, hs => by
    have e1 : y1 = [] := List.length_eq_zero_iff.mp h1
    have e2 : y2 = [] := List.length_eq_zero_iff.mp h2
    subst e1 e2
    simp [Pwl.pieces, PLChain, pEndX, pEndY, lastD, Pwl.ofPieces]
  | b :: xs, [], y2, a, d, h1, h2, hs => by simp at h1
  | b :: xs, u :: y1, [], a, d, h1, h2, hs => by simp at h2
  | b :: xs, u :: y1, v :: y2, a, d, h1, h2, hs => by
    have hs' := List.pairwise_cons.mp hs
    obtain ⟨i1, i2, i3, i4, i5, i6⟩ := pieces_of_lists xs y1 y2 b v (by simpa using h1)
      (by simpa using h2) hs'.2
    rw [Pwl.pieces_cons]
    refine ⟨⟨hs'.1 b (by simp), i2, i1⟩, by simp, ?_, ?_, ?_, by simp [i6]⟩
    · simp only [pEndX, lastD_cons_cons_A2]; exact i3
    · simp only [pEndY, lastD_cons_cons_A2]; exact i4
    · have := i5
      simp only [Pwl.ofPieces, Pwl.mk.injEq, List.map_cons, List.cons.injEq, true_and] at this ⊢
      exact ⟨this.1, this.2.1, this.2.2⟩

/-- structure of the pieces of a well-formed representation -/
theorem Pwl.WF.pieces {f : Pwl} (hf : f.WF) :
    ∃ c r, f.pieces = c :: r ∧ PLChain (c :: r) ∧ c.xl = f.first ∧ pEndX c.xr r = f.last ∧
      pEndY c.yr r = lastD f.y2 0 ∧ f = Pwl.ofPieces f.first (c :: r) := by
  obtain ⟨x, y1, y2⟩ := f
  obtain ⟨h1, h2, hs, hl⟩ := hf
  simp only at h1 h2 hs hl
  match x, hl with
  | a :: b :: xs, _ =>
    obtain ⟨i1, i2, i3, i4, i5, i6⟩ := pieces_of_lists (b :: xs) y1 y2 a 0 (by simpa using h1)
      (by simpa using h2) hs
    match hp : (Pwl.mk (a :: b :: xs) y1 y2).pieces, i6 with
    | c :: r, _ =>
      rw [hp] at i1 i2 i3 i4 i5
      have hc : a = c.xl := i2 c (by simp)
      refine ⟨c, r, rfl, i1, by simp [Pwl.first, hc], by simpa [pEndX, Pwl.last] using i3, ?_, ?_⟩
      · match y2, h2 with
        | v :: y2', _ => simpa [pEndY, lastD_cons_cons_A2] using i4
      · simpa [Pwl.first] using i5

theorem Pwl.ofPieces_pieces : ∀ {l : List Piece} {x0 : Q}, PLChain l → (∀ p ∈ l.head?, x0 = p.xl) →
    (Pwl.ofPieces x0 l).pieces = l
  | [], x0, h, h0 => by simp [Pwl.ofPieces, Pwl.pieces]
  | c :: r, x0, h, h0 => by
    have hx : x0 = c.xl := h0 c (by simp)
    have ih := Pwl.ofPieces_pieces (x0 := c.xr) h.tail h.2.1
    simp only [Pwl.ofPieces, List.map_cons] at ih ⊢
    rw [Pwl.pieces_cons, ih, hx]

theorem Pwl.ofPieces_first (x0 : Q) (l : List Piece) : (Pwl.ofPieces x0 l).first = x0 := rfl

theorem Pwl.ofPieces_last : ∀ (l : List Piece) (x0 : Q), (Pwl.ofPieces x0 l).last = pEndX x0 l
  | [], x0 => rfl
  | c :: r, x0 => by
    have := Pwl.ofPieces_last r c.xr
    simp only [Pwl.last, Pwl.ofPieces, List.map_cons, lastD_cons_cons_A2, pEndX] at this ⊢
    exact this

theorem Pwl.ofPieces_wf {l : List Piece} {x0 : Q} (h : PLChain l) (h0 : ∀ p ∈ l.head?, x0 = p.xl)
    (hne : l ≠ []) : (Pwl.ofPieces x0 l).WF := by
  refine ⟨by simp [Pwl.ofPieces], by simp [Pwl.ofPieces], h.sorted h0, ?_⟩
  cases l with
  | nil => exact absurd rfl hne
  | cons c r => simp [Pwl.ofPieces]

/-! ## the output of the merge loop as a list of pieces -/

/-- pieces described by a start point, the emitted events (x, left limit, right limit) and the
    closing point -/
def mkPieces : Q → Q → List (Q × Q × Q) → Q → Q → List Piece
  | x0, y0, [], xe, ye => [⟨x0, xe, y0, ye⟩]
  | x0, y0, (x, l, r) :: evs, xe, ye => ⟨x0, x, y0, l⟩ :: mkPieces x r evs xe ye

theorem mkPieces_head (x0 y0 : Q) (evs : List (Q × Q × Q)) (xe ye : Q) :
    ∀ p ∈ (mkPieces x0 y0 evs xe ye).head?, x0 = p.xl := by
  cases evs with
  | nil => simp [mkPieces]
  | cons e evs => obtain ⟨x, l, r⟩ := e; simp [mkPieces]

theorem mkPieces_ne_nil (x0 y0 : Q) (evs : List (Q × Q × Q)) (xe ye : Q) :
    mkPieces x0 y0 evs xe ye ≠ [] := by
  cases evs with
  | nil => simp [mkPieces]
  | cons e evs => obtain ⟨x, l, r⟩ := e; simp [mkPieces]

theorem ofPieces_mkPieces : ∀ (evs : List (Q × Q × Q)) (x0 y0 xe ye : Q),
    Pwl.ofPieces x0 (mkPieces x0 y0 evs xe ye)
      = ⟨x0 :: evs.map (·.1) ++ [xe], y0 :: evs.map (·.2.2), evs.map (·.2.1) ++ [ye]⟩
  | [], x0, y0, xe, ye => by simp [mkPieces, Pwl.ofPieces]
  | (x, l, r) :: evs, x0, y0, xe, ye => by
    have ih := ofPieces_mkPieces evs x r xe ye
    simp only [Pwl.ofPieces, Pwl.mk.injEq] at ih
    simp [mkPieces, Pwl.ofPieces, ih.1, ih.2.1, ih.2.2]

/-- `Pwl.add` in terms of pieces -/
theorem Pwl.add_eq {f g : Pwl} {c1 c2 : Piece} {r1 r2 : List Piece} (h1 : f.pieces = c1 :: r1)
    (h2 : g.pieces = c2 :: r2) :
    f.add g = Pwl.ofPieces f.first (mkPieces f.first (c1.yl + c2.yl) (addPwlLoop c1 r1 c2 r2)
      f.last (lastD f.y2 0 + lastD g.y2 0)) := by
  rw [ofPieces_mkPieces]
  simp only [Pwl.add, h1, h2, Pwl.first, Pwl.last]

/-! ## loop invariant -/

/-- both remaining chains are well-formed and end at the same point `xe` -/
structure AddInv (xe : Q) (c1 : Piece) (r1 : List Piece) (c2 : Piece) (r2 : List Piece) : Prop where
  ch1 : PLChain (c1 :: r1)
  ch2 : PLChain (c2 :: r2)
  e1 : pEndX c1.xr r1 = xe
  e2 : pEndX c2.xr r2 = xe

theorem AddInv.adv1 {xe : Q} {c1 p c2 : Piece} {r1 r2 : List Piece} (h : AddInv xe c1 (p :: r1) c2 r2) :
    AddInv xe p r1 c2 r2 := ⟨h.ch1.tail, h.ch2, h.e1, h.e2⟩

theorem AddInv.adv2 {xe : Q} {c1 q c2 : Piece} {r1 r2 : List Piece} (h : AddInv xe c1 r1 c2 (q :: r2)) :
    AddInv xe c1 r1 q r2 := ⟨h.ch1, h.ch2.tail, h.e1, h.e2⟩

theorem AddInv.link1 {xe : Q} {c1 p c2 : Piece} {r1 r2 : List Piece} (h : AddInv xe c1 (p :: r1) c2 r2) :
    c1.xr = p.xl := ((chain_cons_cons _ _ _).mp h.ch1).2.1

theorem AddInv.link2 {xe : Q} {c1 q c2 : Piece} {r1 r2 : List Piece} (h : AddInv xe c1 r1 c2 (q :: r2)) :
    c2.xr = q.xl := ((chain_cons_cons _ _ _).mp h.ch2).2.1

theorem AddInv.lt_nil2 {xe : Q} {c1 p c2 : Piece} {r1 : List Piece} (h : AddInv xe c1 (p :: r1) c2 []) :
    c1.xr < c2.xr := by
  have := h.ch1.xr_lt_endX
  have e1 := h.e1
  have e2 := h.e2
  simp only [pEndX] at e2
  linarith

theorem AddInv.lt_nil1 {xe : Q} {c1 q c2 : Piece} {r2 : List Piece} (h : AddInv xe c1 [] c2 (q :: r2)) :
    c2.xr < c1.xr := by
  have := h.ch2.xr_lt_endX
  have e1 := h.e1
  have e2 := h.e2
  simp only [pEndX] at e1
  linarith

theorem AddInv.lt1 {xe : Q} {c1 c2 : Piece} {r1 r2 : List Piece} (h : AddInv xe c1 r1 c2 r2) :
    c1.xl < c1.xr := h.ch1.head_lt

theorem AddInv.lt2 {xe : Q} {c1 c2 : Piece} {r1 r2 : List Piece} (h : AddInv xe c1 r1 c2 r2) :
    c2.xl < c2.xr := h.ch2.head_lt

/-- what the pieces `out` of the sum must satisfy: a chain from `x0` to `xe`, each piece being the
    sum of (restrictions of) a piece of either operand -/
def AddGood (x0 xe : Q) (l1 l2 out : List Piece) : Prop :=
  PLChain out ∧ (∀ p ∈ out.head?, x0 = p.xl) ∧ pEndX x0 out = xe ∧
    ∀ p ∈ out, ∃ q1 ∈ l1, ∃ q2 ∈ l2, PieceSum p q1 q2

theorem AddGood.cons {x0 xe : Q} {l1 l2 l1' l2' out' : List Piece} {P : Piece} (hx : x0 = P.xl)
    (hP : P.xl < P.xr) (hs : ∃ q1 ∈ l1, ∃ q2 ∈ l2, PieceSum P q1 q2)
    (h : AddGood P.xr xe l1' l2' out') (s1 : l1' ⊆ l1) (s2 : l2' ⊆ l2) :
    AddGood x0 xe l1 l2 (P :: out') := by
  obtain ⟨g1, g2, g3, g4⟩ := h
  refine ⟨⟨hP, g2, g1⟩, by simpa using hx, by simpa [pEndX] using g3, ?_⟩
  intro p hp
  rcases List.mem_cons.mp hp with hp | hp
  · rw [hp]; exact hs
  · obtain ⟨q1, hq1, q2, hq2, hq⟩ := g4 p hp
    exact ⟨q1, s1 hq1, q2, s2 hq2, hq⟩

/-- one step of the loop that consumes a breakpoint of the first operand only -/
theorem good_left {x0 xe ye : Q} {c1 p c2 : Piece} {r1 r2 : List Piece} {evs : List (Q × Q × Q)}
    (hI : AddInv xe c1 (p :: r1) c2 r2) (hlt : c1.xr < c2.xr)
    (h1 : c1.xl ≤ x0) (h1' : x0 < c1.xr) (h2 : c2.xl ≤ x0)
    (ih : AddGood c1.xr xe (p :: r1) (c2 :: r2)
      (mkPieces c1.xr (p.at c1.xr + c2.at c1.xr) evs xe ye)) :
    AddGood x0 xe (c1 :: p :: r1) (c2 :: r2)
      (mkPieces x0 (c1.at x0 + c2.at x0)
        ((c1.xr, c1.yr + c2.at c1.xr, p.yl + c2.at c1.xr) :: evs) xe ye) := by
  have e : p.yl + c2.at c1.xr = p.at c1.xr + c2.at c1.xr := by rw [hI.link1, Piece.at_xl]
  simp only [mkPieces]
  rw [e]
  refine AddGood.cons rfl h1' ⟨c1, by simp, c2, by simp, ?_⟩ ih (by simp) (by simp)
  exact ⟨h1, le_refl _, h2, le_of_lt hlt, rfl, by simp only [Piece.at_xr c1 hI.lt1]⟩

/-- one step of the loop that consumes a breakpoint of the second operand only -/
theorem good_right {x0 xe ye : Q} {c1 q c2 : Piece} {r1 r2 : List Piece} {evs : List (Q × Q × Q)}
    (hI : AddInv xe c1 r1 c2 (q :: r2)) (hlt : c2.xr < c1.xr)
    (h1 : c1.xl ≤ x0) (h2 : c2.xl ≤ x0) (h2' : x0 < c2.xr)
    (ih : AddGood c2.xr xe (c1 :: r1) (q :: r2)
      (mkPieces c2.xr (c1.at c2.xr + q.at c2.xr) evs xe ye)) :
    AddGood x0 xe (c1 :: r1) (c2 :: q :: r2)
      (mkPieces x0 (c1.at x0 + c2.at x0)
        ((c2.xr, c2.yr + c1.at c2.xr, q.yl + c1.at c2.xr) :: evs) xe ye) := by
  have e : q.yl + c1.at c2.xr = c1.at c2.xr + q.at c2.xr := by
    rw [hI.link2, Piece.at_xl, add_comm]
  simp only [mkPieces]
  rw [e]
  refine AddGood.cons rfl h2' ⟨c1, by simp, c2, by simp, ?_⟩ ih (by simp) (by simp)
  exact ⟨h1, le_of_lt hlt, h2, le_refl _, rfl, by
    simp only [Piece.at_xr c2 hI.lt2]; exact add_comm _ _⟩

/-- one step of the loop at a common breakpoint -/
theorem good_both {x0 xe ye : Q} {c1 p c2 q : Piece} {r1 r2 : List Piece} {evs : List (Q × Q × Q)}
    (hI : AddInv xe c1 (p :: r1) c2 (q :: r2)) (heq : c1.xr = c2.xr)
    (h1 : c1.xl ≤ x0) (h1' : x0 < c1.xr) (h2 : c2.xl ≤ x0)
    (ih : AddGood c1.xr xe (p :: r1) (q :: r2)
      (mkPieces c1.xr (p.at c1.xr + q.at c1.xr) evs xe ye)) :
    AddGood x0 xe (c1 :: p :: r1) (c2 :: q :: r2)
      (mkPieces x0 (c1.at x0 + c2.at x0)
        ((c1.xr, c1.yr + c2.yr, p.yl + q.yl) :: evs) xe ye) := by
  have e : p.yl + q.yl = p.at c1.xr + q.at c1.xr := by
    conv_rhs => rw [heq, hI.link2, Piece.at_xl, ← hI.link2, ← heq, hI.link1, Piece.at_xl]
  simp only [mkPieces]
  rw [e]
  refine AddGood.cons rfl h1' ⟨c1, by simp, c2, by simp, ?_⟩ ih (by simp) (by simp)
  refine ⟨h1, le_refl _, h2, le_of_eq heq, rfl, ?_⟩
  show c1.yr + c2.yr = c1.at c1.xr + c2.at c1.xr
  rw [Piece.at_xr c1 hI.lt1, heq, Piece.at_xr c2 hI.lt2]

/-- loop invariant: the pieces built from the emitted events form a chain from the current position
    to the common end, and each is the sum of the operands' pieces restricted to it -/
theorem addPwlLoop_good (xe : Q) : ∀ (c1 : Piece) (r1 : List Piece) (c2 : Piece) (r2 : List Piece)
    (x0 : Q), AddInv xe c1 r1 c2 r2 → c1.xl ≤ x0 → x0 < c1.xr → c2.xl ≤ x0 → x0 < c2.xr →
    AddGood x0 xe (c1 :: r1) (c2 :: r2)
      (mkPieces x0 (c1.at x0 + c2.at x0) (addPwlLoop c1 r1 c2 r2) xe
        (pEndY c1.yr r1 + pEndY c2.yr r2)) := by
  intro c1 r1 c2 r2
  induction c1, r1, c2, r2 using addPwlLoop.induct with
  | case1 c1 c2 =>
    intro x0 hI h1 h1' h2 h2'
    have e1 := hI.e1
    have e2 := hI.e2
    simp only [pEndX] at e1 e2
    rw [addPwlLoop]
    simp only [mkPieces, pEndY]
    refine ⟨by simpa using (by linarith : x0 < xe), by simp, by simp [pEndX], ?_⟩
    intro p hp
    simp only [List.mem_singleton] at hp
    subst hp
    refine ⟨c1, by simp, c2, by simp, h1, le_of_eq e1.symm, h2, le_of_eq e2.symm, rfl, ?_⟩
    show c1.yr + c2.yr = c1.at xe + c2.at xe
    conv_rhs => rw [← e1, Piece.at_xr c1 hI.lt1, e1, ← e2, Piece.at_xr c2 hI.lt2]
  | case2 c1 c2 p r1' ih =>
    intro x0 hI h1 h1' h2 h2'
    rw [addPwlLoop]
    have hlt := hI.lt_nil2
    exact good_left hI hlt h1 h1' h2
      (ih c1.xr hI.adv1 (le_of_eq hI.link1.symm) (by rw [hI.link1]; exact hI.adv1.lt1)
        (by linarith) hlt)
  | case3 c1 c2 q r2' ih =>
    intro x0 hI h1 h1' h2 h2'
    rw [addPwlLoop]
    have hlt := hI.lt_nil1
    exact good_right hI hlt h1 h2 h2'
      (ih c2.xr hI.adv2 (by linarith) hlt (le_of_eq hI.link2.symm)
        (by rw [hI.link2]; exact hI.adv2.lt2))
  | case4 c1 c2 p r1' q r2' hlt ih =>
    intro x0 hI h1 h1' h2 h2'
    rw [addPwlLoop, if_pos hlt]
    exact good_left hI hlt h1 h1' h2
      (ih c1.xr hI.adv1 (le_of_eq hI.link1.symm) (by rw [hI.link1]; exact hI.adv1.lt1)
        (by linarith) hlt)
  | case5 c1 c2 p r1' q r2' hn hlt ih =>
    intro x0 hI h1 h1' h2 h2'
    rw [addPwlLoop, if_neg hn, if_pos hlt]
    exact good_right hI hlt h1 h2 h2'
      (ih c2.xr hI.adv2 (by linarith) hlt (le_of_eq hI.link2.symm)
        (by rw [hI.link2]; exact hI.adv2.lt2))
  | case6 c1 c2 p r1' q r2' hn1 hn2 ih =>
    intro x0 hI h1 h1' h2 h2'
    rw [addPwlLoop, if_neg hn1, if_neg hn2]
    have heq : c1.xr = c2.xr := le_antisymm (not_lt.mp hn2) (not_lt.mp hn1)
    exact good_both hI heq h1 h1' h2
      (ih c1.xr hI.adv1.adv2 (le_of_eq hI.link1.symm) (by rw [hI.link1]; exact hI.adv1.lt1)
        (by rw [heq]; exact le_of_eq hI.link2.symm)
        (by rw [heq, hI.link2]; exact hI.adv2.lt2))

/-! ## assembling: `Pwl.add` of well-formed operands with the same end points -/

/-! concrete operands used in the `example`s below (different interior breakpoints, a jump in
    `exPwlH`, same end points) -/
def exPwlF : Pwl := ⟨[0, 1, 3], [1, 2], [2, 0]⟩
def exPwlG : Pwl := ⟨[0, 2, 3], [0, 1], [1, 5]⟩
def exPwlH : Pwl := ⟨[0, 1/2, 1, 3], [0, 1, -1], [1, 5, 2]⟩

theorem exPwlF_wf : exPwlF.WF := by norm_num [Pwl.WF, exPwlF]
theorem exPwlG_wf : exPwlG.WF := by norm_num [Pwl.WF, exPwlG]
theorem exPwlH_wf : exPwlH.WF := by norm_num [Pwl.WF, exPwlH]
theorem exPwlFG_first : exPwlF.first = exPwlG.first := by decide +kernel
theorem exPwlFG_last : exPwlF.last = exPwlG.last := by decide +kernel
theorem exPwlGH_first : exPwlG.first = exPwlH.first := by decide +kernel
theorem exPwlGH_last : exPwlG.last = exPwlH.last := by decide +kernel

example : exPwlF.add exPwlG = ⟨[0, 1, 2, 3], [1, 5/2, 2], [5/2, 2, 5]⟩ := by decide +kernel

/-- the sum in piece form -/
theorem Pwl.add_good {f g : Pwl} (hf : f.WF) (hg : g.WF) (h0 : f.first = g.first)
    (h1 : f.last = g.last) :
    ∃ c1 r1 c2 r2 out, f.pieces = c1 :: r1 ∧ g.pieces = c2 :: r2 ∧ PLChain (c1 :: r1) ∧
      PLChain (c2 :: r2) ∧ AddInv f.last c1 r1 c2 r2 ∧ c1.xl = f.first ∧ c2.xl = f.first ∧
      out = mkPieces f.first (c1.yl + c2.yl) (addPwlLoop c1 r1 c2 r2) f.last
        (lastD f.y2 0 + lastD g.y2 0) ∧
      f.add g = Pwl.ofPieces f.first out ∧ AddGood f.first f.last (c1 :: r1) (c2 :: r2) out ∧
      out ≠ [] ∧ (f.add g).pieces = out := by
  obtain ⟨c1, r1, p1, ch1, x1, e1, y1, -⟩ := hf.pieces
  obtain ⟨c2, r2, p2, ch2, x2, e2, y2, -⟩ := hg.pieces
  rw [← h0] at x2
  rw [← h1] at e2
  have hI : AddInv f.last c1 r1 c2 r2 := ⟨ch1, ch2, e1, e2⟩
  have hgood := addPwlLoop_good f.last c1 r1 c2 r2 f.first hI (le_of_eq x1)
    (by rw [← x1]; exact ch1.head_lt) (le_of_eq x2) (by rw [← x2]; exact ch2.head_lt)
  have ey : c1.at f.first + c2.at f.first = c1.yl + c2.yl := by
    conv_lhs => rw [← x1, Piece.at_xl, x1, ← x2, Piece.at_xl]
  rw [ey, y1, y2] at hgood
  have hadd := Pwl.add_eq p1 p2
  refine ⟨c1, r1, c2, r2, _, p1, p2, ch1, ch2, hI, x1, x2, rfl, hadd, hgood, mkPieces_ne_nil _ _ _ _ _, ?_⟩
  rw [hadd]
  exact Pwl.ofPieces_pieces hgood.1 hgood.2.1

theorem Pwl.add_wf {f g : Pwl} (hf : f.WF) (hg : g.WF) (h0 : f.first = g.first)
    (h1 : f.last = g.last) : (f.add g).WF := by
  obtain ⟨c1, r1, c2, r2, out, -, -, -, -, -, -, -, -, hadd, hgood, hne, -⟩ :=
    Pwl.add_good hf hg h0 h1
  rw [hadd]
  exact Pwl.ofPieces_wf hgood.1 hgood.2.1 hne

example : (exPwlF.add exPwlG).WF := Pwl.add_wf exPwlF_wf exPwlG_wf exPwlFG_first exPwlFG_last

theorem Pwl.add_first {f g : Pwl} (hf : f.WF) (hg : g.WF) (h0 : f.first = g.first)
    (h1 : f.last = g.last) : (f.add g).first = f.first := by
  obtain ⟨c1, r1, c2, r2, out, -, -, -, -, -, -, -, -, hadd, -, -, -⟩ := Pwl.add_good hf hg h0 h1
  rw [hadd]; rfl

example : (exPwlF.add exPwlG).first = exPwlF.first := Pwl.add_first exPwlF_wf exPwlG_wf exPwlFG_first exPwlFG_last

theorem Pwl.add_last {f g : Pwl} (hf : f.WF) (hg : g.WF) (h0 : f.first = g.first)
    (h1 : f.last = g.last) : (f.add g).last = f.last := by
  obtain ⟨c1, r1, c2, r2, out, -, -, -, -, -, -, -, -, hadd, hgood, -, -⟩ :=
    Pwl.add_good hf hg h0 h1
  rw [hadd, Pwl.ofPieces_last]
  exact hgood.2.2.1

example : (exPwlF.add exPwlG).last = exPwlF.last := Pwl.add_last exPwlF_wf exPwlG_wf exPwlFG_first exPwlFG_last

/-- right limit (and value) of the sum at every time -/
theorem Pwl.add_evalR {f g : Pwl} (hf : f.WF) (hg : g.WF) (h0 : f.first = g.first)
    (h1 : f.last = g.last) : ∀ t, f.first ≤ t → t < f.last →
    ∃ v w, f.evalR t = some v ∧ g.evalR t = some w ∧ (f.add g).evalR t = some (v + w) := by
  intro t ht0 ht1
  obtain ⟨c1, r1, c2, r2, out, p1, p2, ch1, ch2, -, -, -, -, -, hgood, hne, hp⟩ :=
    Pwl.add_good hf hg h0 h1
  obtain ⟨hch, hhd, hend, hsum⟩ := hgood
  match out, hne with
  | o :: os, _ =>
    have ho : f.first = o.xl := hhd o (by simp)
    simp only [pEndX] at hend
    obtain ⟨p, hpm, hp1, hp2⟩ := hch.coverR t (by rw [← ho]; exact ht0) (by rw [hend]; exact ht1)
    obtain ⟨q1, hq1, q2, hq2, hs⟩ := hsum p hpm
    refine ⟨q1.at t, q2.at t, ?_, ?_, ?_⟩
    · unfold Pwl.evalR
      rw [p1, ch1.findR q1 hq1 t (le_trans hs.l1 hp1) (lt_of_lt_of_le hp2 hs.r1)]; rfl
    · unfold Pwl.evalR
      rw [p2, ch2.findR q2 hq2 t (le_trans hs.l2 hp1) (lt_of_lt_of_le hp2 hs.r2)]; rfl
    · unfold Pwl.evalR
      rw [hp, hch.findR p hpm t hp1 hp2]
      simp only [Option.map_some, hs.at_eq (hch.mem_lt p hpm) t]

example : ∃ v w, exPwlF.evalR (3/2) = some v ∧ exPwlG.evalR (3/2) = some w ∧
    (exPwlF.add exPwlG).evalR (3/2) = some (v + w) :=
  Pwl.add_evalR exPwlF_wf exPwlG_wf exPwlFG_first exPwlFG_last (3/2) (by decide +kernel) (by decide +kernel)

/-- left limit (and value at the right end) of the sum at every time -/
theorem Pwl.add_evalL {f g : Pwl} (hf : f.WF) (hg : g.WF) (h0 : f.first = g.first)
    (h1 : f.last = g.last) : ∀ t, f.first < t → t ≤ f.last →
    ∃ v w, f.evalL t = some v ∧ g.evalL t = some w ∧ (f.add g).evalL t = some (v + w) := by
  intro t ht0 ht1
  obtain ⟨c1, r1, c2, r2, out, p1, p2, ch1, ch2, -, -, -, -, -, hgood, hne, hp⟩ :=
    Pwl.add_good hf hg h0 h1
  obtain ⟨hch, hhd, hend, hsum⟩ := hgood
  match out, hne with
  | o :: os, _ =>
    have ho : f.first = o.xl := hhd o (by simp)
    simp only [pEndX] at hend
    obtain ⟨p, hpm, hp1, hp2⟩ := hch.coverL t (by rw [← ho]; exact ht0) (by rw [hend]; exact ht1)
    obtain ⟨q1, hq1, q2, hq2, hs⟩ := hsum p hpm
    refine ⟨q1.at t, q2.at t, ?_, ?_, ?_⟩
    · unfold Pwl.evalL
      rw [p1, ch1.findL q1 hq1 t (lt_of_le_of_lt hs.l1 hp1) (le_trans hp2 hs.r1)]; rfl
    · unfold Pwl.evalL
      rw [p2, ch2.findL q2 hq2 t (lt_of_le_of_lt hs.l2 hp1) (le_trans hp2 hs.r2)]; rfl
    · unfold Pwl.evalL
      rw [hp, hch.findL p hpm t hp1 hp2]
      simp only [Option.map_some, hs.at_eq (hch.mem_lt p hpm) t]

example : ∃ v w, exPwlF.evalL 3 = some v ∧ exPwlG.evalL 3 = some w ∧
    (exPwlF.add exPwlG).evalL 3 = some (v + w) :=
  Pwl.add_evalL exPwlF_wf exPwlG_wf exPwlFG_first exPwlFG_last 3 (by decide +kernel) (by decide +kernel)

/-! ## breakpoints of the sum -/

theorem addPwlLoop_mem (xe : Q) : ∀ (c1 : Piece) (r1 : List Piece) (c2 : Piece) (r2 : List Piece),
    pEndX c1.xr r1 = xe → pEndX c2.xr r2 = xe → ∀ x,
    (x ∈ (addPwlLoop c1 r1 c2 r2).map (·.1) ∨ x = xe) ↔
      (x ∈ (c1 :: r1).map (·.xr) ∨ x ∈ (c2 :: r2).map (·.xr)) := by
  intro c1 r1 c2 r2
  induction c1, r1, c2, r2 using addPwlLoop.induct with
  | case1 c1 c2 =>
    intro e1 e2 x
    simp only [pEndX] at e1 e2
    rw [addPwlLoop]
    simp [e1, e2]
  | case2 c1 c2 p r1' ih =>
    intro e1 e2 x
    rw [addPwlLoop]
    have := ih e1 e2 x
    simp only [List.map_cons, List.mem_cons] at this ⊢
    tauto
  | case3 c1 c2 q r2' ih =>
    intro e1 e2 x
    rw [addPwlLoop]
    have := ih e1 e2 x
    simp only [List.map_cons, List.mem_cons] at this ⊢
    tauto
  | case4 c1 c2 p r1' q r2' hlt ih =>
    intro e1 e2 x
    rw [addPwlLoop, if_pos hlt]
    have := ih e1 e2 x
    simp only [List.map_cons, List.mem_cons] at this ⊢
    tauto
  | case5 c1 c2 p r1' q r2' hn hlt ih =>
    intro e1 e2 x
    rw [addPwlLoop, if_neg hn, if_pos hlt]
    have := ih e1 e2 x
    simp only [List.map_cons, List.mem_cons] at this ⊢
    tauto
  | case6 c1 c2 p r1' q r2' hn1 hn2 ih =>
    intro e1 e2 x
    rw [addPwlLoop, if_neg hn1, if_neg hn2]
    have heq : c1.xr = c2.xr := le_antisymm (not_lt.mp hn2) (not_lt.mp hn1)
    have := ih e1 e2 x
    simp only [List.map_cons, List.mem_cons] at this ⊢
    rw [← heq]
    tauto

/-- the breakpoints of the sum are the breakpoints of the operands -/
theorem Pwl.add_mem_x {f g : Pwl} (hf : f.WF) (hg : g.WF) (h0 : f.first = g.first)
    (h1 : f.last = g.last) : ∀ x, x ∈ (f.add g).x ↔ x ∈ f.x ∨ x ∈ g.x := by
  intro x
  obtain ⟨c1, r1, p1, ch1, x1, e1, y1, f1⟩ := hf.pieces
  obtain ⟨c2, r2, p2, ch2, x2, e2, y2, f2⟩ := hg.pieces
  have hx : (f.add g).x = f.first :: (addPwlLoop c1 r1 c2 r2).map (·.1) ++ [f.last] := by
    rw [Pwl.add_eq p1 p2, ofPieces_mkPieces]
  have hfx : f.x = f.first :: (c1 :: r1).map (·.xr) := by
    conv_lhs => rw [f1]
    rfl
  have hgx : g.x = f.first :: (c2 :: r2).map (·.xr) := by
    conv_lhs => rw [f2, ← h0]
    rfl
  have := addPwlLoop_mem f.last c1 r1 c2 r2 e1 (by rw [e2, h1]) x
  rw [hx, hfx, hgx]
  simp only [List.cons_append, List.mem_cons, List.mem_append, List.not_mem_nil,
    or_false] at this ⊢
  tauto

example : ∀ x, x ∈ (exPwlF.add exPwlG).x ↔ x ∈ exPwlF.x ∨ x ∈ exPwlG.x :=
  Pwl.add_mem_x exPwlF_wf exPwlG_wf exPwlFG_first exPwlFG_last

/-! ## integral of the sum -/

/-- trapezoid area of a piece -/
def Piece.area (p : Piece) : Q := (p.xr - p.xl) * ((p.yl + p.yr) / 2)

/-- trapezoid area of the part of a piece to the right of `x0` -/
def Piece.areaFrom (p : Piece) (x0 : Q) : Q := (p.xr - x0) * ((p.at x0 + p.yr) / 2)

theorem Piece.areaFrom_xl (p : Piece) : p.areaFrom p.xl = p.area := by
  unfold Piece.areaFrom Piece.area; rw [Piece.at_xl]

theorem Piece.areaFrom_split (c : Piece) (h : c.xl < c.xr) (x0 m : Q) :
    (m - x0) * ((c.at x0 + c.at m) / 2) + c.areaFrom m = c.areaFrom x0 := by
  unfold Piece.areaFrom Piece.at
  have : c.xr - c.xl ≠ 0 := by linarith
  field_simp
  ring

theorem Pwl.integralAll_eq (f : Pwl) : f.integralAll = qsum (f.pieces.map Piece.area) := rfl

theorem addPwlLoop_area (xe : Q) : ∀ (c1 : Piece) (r1 : List Piece) (c2 : Piece) (r2 : List Piece)
    (x0 : Q), AddInv xe c1 r1 c2 r2 →
    qsum ((mkPieces x0 (c1.at x0 + c2.at x0) (addPwlLoop c1 r1 c2 r2) xe
        (pEndY c1.yr r1 + pEndY c2.yr r2)).map Piece.area)
      = c1.areaFrom x0 + qsum (r1.map Piece.area) + (c2.areaFrom x0 + qsum (r2.map Piece.area)) := by
  intro c1 r1 c2 r2
  induction c1, r1, c2, r2 using addPwlLoop.induct with
  | case1 c1 c2 =>
    intro x0 hI
    have e1 := hI.e1
    have e2 := hI.e2
    simp only [pEndX] at e1 e2
    rw [addPwlLoop]
    simp only [mkPieces, pEndY, List.map_cons, List.map_nil, qsum, Piece.area, Piece.areaFrom]
    rw [e1, e2]; ring
  | case2 c1 c2 p r1' ih =>
    intro x0 hI
    rw [addPwlLoop]
    have ih' := ih c1.xr hI.adv1
    have e : p.yl + c2.at c1.xr = p.at c1.xr + c2.at c1.xr := by rw [hI.link1, Piece.at_xl]
    have hs := Piece.areaFrom_split c2 hI.lt2 x0 c1.xr
    have hp : p.areaFrom c1.xr = p.area := by rw [hI.link1, Piece.areaFrom_xl]
    simp only [mkPieces, List.map_cons, qsum, pEndY] at ih' ⊢
    rw [e, ih', hp, ← hs]
    simp only [Piece.area, Piece.areaFrom]; ring
  | case3 c1 c2 q r2' ih =>
    intro x0 hI
    rw [addPwlLoop]
    have ih' := ih c2.xr hI.adv2
    have e : q.yl + c1.at c2.xr = c1.at c2.xr + q.at c2.xr := by
      rw [hI.link2, Piece.at_xl, add_comm]
    have hs := Piece.areaFrom_split c1 hI.lt1 x0 c2.xr
    have hp : q.areaFrom c2.xr = q.area := by rw [hI.link2, Piece.areaFrom_xl]
    simp only [mkPieces, List.map_cons, qsum, pEndY] at ih' ⊢
    rw [e, ih', hp, ← hs]
    simp only [Piece.area, Piece.areaFrom]; ring
  | case4 c1 c2 p r1' q r2' hlt ih =>
    intro x0 hI
    rw [addPwlLoop, if_pos hlt]
    have ih' := ih c1.xr hI.adv1
    have e : p.yl + c2.at c1.xr = p.at c1.xr + c2.at c1.xr := by rw [hI.link1, Piece.at_xl]
    have hs := Piece.areaFrom_split c2 hI.lt2 x0 c1.xr
    have hp : p.areaFrom c1.xr = p.area := by rw [hI.link1, Piece.areaFrom_xl]
    simp only [mkPieces, List.map_cons, qsum, pEndY] at ih' ⊢
    rw [e, ih', hp, ← hs]
    simp only [Piece.area, Piece.areaFrom]; ring
  | case5 c1 c2 p r1' q r2' hn hlt ih =>
    intro x0 hI
    rw [addPwlLoop, if_neg hn, if_pos hlt]
    have ih' := ih c2.xr hI.adv2
    have e : q.yl + c1.at c2.xr = c1.at c2.xr + q.at c2.xr := by
      rw [hI.link2, Piece.at_xl, add_comm]
    have hs := Piece.areaFrom_split c1 hI.lt1 x0 c2.xr
    have hp : q.areaFrom c2.xr = q.area := by rw [hI.link2, Piece.areaFrom_xl]
    simp only [mkPieces, List.map_cons, qsum, pEndY] at ih' ⊢
    rw [e, ih', hp, ← hs]
    simp only [Piece.area, Piece.areaFrom]; ring
  | case6 c1 c2 p r1' q r2' hn1 hn2 ih =>
    intro x0 hI
    rw [addPwlLoop, if_neg hn1, if_neg hn2]
    have heq : c1.xr = c2.xr := le_antisymm (not_lt.mp hn2) (not_lt.mp hn1)
    have ih' := ih c1.xr hI.adv1.adv2
    have e : p.yl + q.yl = p.at c1.xr + q.at c1.xr := by
      conv_rhs => rw [heq, hI.link2, Piece.at_xl, ← hI.link2, ← heq, hI.link1, Piece.at_xl]
    have hp : p.areaFrom c1.xr = p.area := by rw [hI.link1, Piece.areaFrom_xl]
    have hq : q.areaFrom c1.xr = q.area := by rw [heq, hI.link2, Piece.areaFrom_xl]
    simp only [mkPieces, List.map_cons, qsum, pEndY] at ih' ⊢
    rw [e, ih', hp, hq]
    simp only [Piece.area, Piece.areaFrom, heq]; ring

/-- the integral of the sum is the sum of the integrals -/
theorem Pwl.add_integralAll {f g : Pwl} (hf : f.WF) (hg : g.WF) (h0 : f.first = g.first)
    (h1 : f.last = g.last) : (f.add g).integralAll = f.integralAll + g.integralAll := by
  obtain ⟨c1, r1, p1, ch1, x1, e1, y1, -⟩ := hf.pieces
  obtain ⟨c2, r2, p2, ch2, x2, e2, y2, -⟩ := hg.pieces
  obtain ⟨c1', r1', c2', r2', out, p1', p2', -, -, hI, -, hx2, hout, -, -, -, hp⟩ :=
    Pwl.add_good hf hg h0 h1
  rw [p1] at p1'
  rw [p2] at p2'
  obtain ⟨rfl, rfl⟩ := List.cons.inj p1'
  obtain ⟨rfl, rfl⟩ := List.cons.inj p2'
  have ha := addPwlLoop_area f.last c1 r1 c2 r2 f.first hI
  have ey : c1.at f.first + c2.at f.first = c1.yl + c2.yl := by
    conv_lhs => rw [← x1, Piece.at_xl, x1, ← hx2, Piece.at_xl]
  rw [ey, y1, y2, ← hout] at ha
  rw [Pwl.integralAll_eq, Pwl.integralAll_eq, Pwl.integralAll_eq, hp, ha, p1, p2]
  conv_lhs => rw [← x1, Piece.areaFrom_xl, x1, ← hx2, Piece.areaFrom_xl]
  simp only [List.map_cons, qsum]

example : (exPwlF.add exPwlG).integralAll = exPwlF.integralAll + exPwlG.integralAll :=
  Pwl.add_integralAll exPwlF_wf exPwlG_wf exPwlFG_first exPwlFG_last

/-! ## scaling -/

def Piece.scale (c : Q) (p : Piece) : Piece := ⟨p.xl, p.xr, p.yl * c, p.yr * c⟩

theorem Piece.scale_at (c : Q) (p : Piece) (t : Q) : (p.scale c).at t = p.at t * c := by
  unfold Piece.scale Piece.at; ring

theorem Piece.scale_area (c : Q) (p : Piece) : (p.scale c).area = p.area * c := by
  unfold Piece.scale Piece.area; ring

theorem pieces_scale (c : Q) : ∀ (xs xt y1 y2 : List Q),
    ((xs.zip (xt.zip ((y1.map (· * c)).zip (y2.map (· * c))))).map
        fun p => (⟨p.1, p.2.1, p.2.2.1, p.2.2.2⟩ : Piece))
      = ((xs.zip (xt.zip (y1.zip y2))).map
        fun p => (⟨p.1, p.2.1, p.2.2.1, p.2.2.2⟩ : Piece)).map (Piece.scale c)
  | [], _, _, _ => by simp
  | _ :: _, [], _, _ => by simp
  | _ :: _, _ :: _, [], _ => by simp
  | _ :: _, _ :: _, _ :: _, [] => by simp
  | a :: xs, b :: xt, u :: y1, v :: y2 => by
    have := pieces_scale c xs xt y1 y2
    simp only [List.map_cons, List.zip_cons_cons, List.cons.injEq]
    exact ⟨rfl, this⟩

theorem Pwl.mulScalar_pieces (f : Pwl) (c : Q) :
    (f.mulScalar c).pieces = f.pieces.map (Piece.scale c) :=
  pieces_scale c f.x f.x.tail f.y1 f.y2

theorem Pwl.mulScalar_wf {f : Pwl} (hf : f.WF) (c : Q) : (f.mulScalar c).WF := by
  obtain ⟨h1, h2, h3, h4⟩ := hf
  exact ⟨by simpa [Pwl.mulScalar] using h1, by simpa [Pwl.mulScalar] using h2, h3, h4⟩

example : (exPwlH.mulScalar (1/3)).WF := Pwl.mulScalar_wf exPwlH_wf (1/3)

theorem Pwl.mulScalar_evalR (f : Pwl) (c t : Q) :
    (f.mulScalar c).evalR t = (f.evalR t).map (· * c) := by
  unfold Pwl.evalR
  rw [Pwl.mulScalar_pieces, List.find?_map, Option.map_map, Option.map_map]
  have : ((fun p : Piece => decide (p.xl ≤ t ∧ t < p.xr)) ∘ Piece.scale c)
      = fun p : Piece => decide (p.xl ≤ t ∧ t < p.xr) := rfl
  rw [this]
  congr 1
  funext p
  exact Piece.scale_at c p t

theorem Pwl.mulScalar_evalL (f : Pwl) (c t : Q) :
    (f.mulScalar c).evalL t = (f.evalL t).map (· * c) := by
  unfold Pwl.evalL
  rw [Pwl.mulScalar_pieces, List.find?_map, Option.map_map, Option.map_map]
  have : ((fun p : Piece => decide (p.xl < t ∧ t ≤ p.xr)) ∘ Piece.scale c)
      = fun p : Piece => decide (p.xl < t ∧ t ≤ p.xr) := rfl
  rw [this]
  congr 1
  funext p
  exact Piece.scale_at c p t

theorem Pwl.mulScalar_integralAll (f : Pwl) (c : Q) :
    (f.mulScalar c).integralAll = f.integralAll * c := by
  rw [Pwl.integralAll_eq, Pwl.integralAll_eq, Pwl.mulScalar_pieces, ← qsum_map_mul, List.map_map,
    List.map_map]
  congr 1
  apply List.map_congr_left
  intro p _
  exact Piece.scale_area c p

theorem Pwl.mulScalar_first (f : Pwl) (c : Q) : (f.mulScalar c).first = f.first := rfl
theorem Pwl.mulScalar_last (f : Pwl) (c : Q) : (f.mulScalar c).last = f.last := rfl

/-! ## commutativity -/

theorem addPwlLoop_comm : ∀ (c1 : Piece) (r1 : List Piece) (c2 : Piece) (r2 : List Piece),
    addPwlLoop c1 r1 c2 r2 = addPwlLoop c2 r2 c1 r1 := by
  intro c1 r1 c2 r2
  induction c1, r1, c2, r2 using addPwlLoop.induct with
  | case1 c1 c2 => rw [addPwlLoop, addPwlLoop]
  | case2 c1 c2 p r1' ih => rw [addPwlLoop, addPwlLoop, ih]
  | case3 c1 c2 q r2' ih => rw [addPwlLoop, addPwlLoop, ih]
  | case4 c1 c2 p r1' q r2' hlt ih =>
    rw [addPwlLoop, if_pos hlt, addPwlLoop, if_neg (not_lt.mpr (le_of_lt hlt)), if_pos hlt, ih]
  | case5 c1 c2 p r1' q r2' hn hlt ih =>
    rw [addPwlLoop, if_neg hn, if_pos hlt, addPwlLoop, if_pos hlt, ih]
  | case6 c1 c2 p r1' q r2' hn1 hn2 ih =>
    have heq : c1.xr = c2.xr := le_antisymm (not_lt.mp hn2) (not_lt.mp hn1)
    rw [addPwlLoop, if_neg hn1, if_neg hn2, addPwlLoop, if_neg hn2, if_neg hn1, ih, heq,
      add_comm c1.yr, add_comm p.yl]

theorem Pwl.add_comm {f g : Pwl} (hf : f.WF) (hg : g.WF) (h0 : f.first = g.first)
    (h1 : f.last = g.last) : f.add g = g.add f := by
  obtain ⟨c1, r1, p1, -⟩ := hf.pieces
  obtain ⟨c2, r2, p2, -⟩ := hg.pieces
  rw [Pwl.add_eq p1 p2, Pwl.add_eq p2 p1, addPwlLoop_comm, ← h0, ← h1, _root_.add_comm c1.yl,
    _root_.add_comm (lastD f.y2 0)]

example : exPwlF.add exPwlG = exPwlG.add exPwlF := Pwl.add_comm exPwlF_wf exPwlG_wf exPwlFG_first exPwlFG_last

/-! ## canonical form and associativity -/

theorem PLChain.xl_le_of_mem {c : Piece} {r : List Piece} (h : PLChain (c :: r)) :
    ∀ p ∈ c :: r, c.xl ≤ p.xl := by
  intro p hp
  rcases List.mem_cons.mp hp with hp | hp
  · rw [hp]
  · exact le_trans (le_of_lt h.head_lt) (h.le_of_mem p hp)

theorem PLChain.xr_le_endX_of_mem : ∀ {r : List Piece} {c : Piece}, PLChain (c :: r) →
    ∀ p ∈ c :: r, p.xr ≤ pEndX c.xr r
  | [], c, h, p, hp => by
    simp only [List.mem_singleton] at hp
    rw [hp]; exact le_refl _
  | q :: r, c, h, p, hp => by
    rcases List.mem_cons.mp hp with hp | hp
    · rw [hp]; exact h.xr_le_endX
    · exact PLChain.xr_le_endX_of_mem h.tail p hp

theorem Piece.ext' {p q : Piece} (h1 : p.xl = q.xl) (h2 : p.xr = q.xr) (h3 : p.yl = q.yl)
    (h4 : p.yr = q.yr) : p = q := by
  cases p; cases q; simp_all

/-- a chain is determined by its breakpoints and the values at the ends of its pieces -/
theorem chain_ext : ∀ (la lb : List Piece) (x0 : Q), PLChain la → PLChain lb →
    (∀ p ∈ la.head?, x0 = p.xl) → (∀ p ∈ lb.head?, x0 = p.xl) →
    la.map (·.xr) = lb.map (·.xr) →
    (∀ p ∈ la, ∀ p' ∈ lb, p.xl = p'.xl → p.xr = p'.xr → p.yl = p'.yl ∧ p.yr = p'.yr) → la = lb
  | [], [], _, _, _, _, _, _, _ => rfl
  | [], _ :: _, _, _, _, _, _, hm, _ => by simp at hm
  | _ :: _, [], _, _, _, _, _, hm, _ => by simp at hm
  | c :: r, c' :: r', x0, ha, hb, h0, h0', hm, hv => by
    have hx : c.xl = c'.xl := by rw [← h0 c (by simp), ← h0' c' (by simp)]
    simp only [List.map_cons, List.cons.injEq] at hm
    obtain ⟨hy1, hy2⟩ := hv c (by simp) c' (by simp) hx hm.1
    have hc : c = c' := Piece.ext' hx hm.1 hy1 hy2
    have ht := chain_ext r r' c.xr ha.tail hb.tail ha.2.1 (by rw [hm.1]; exact hb.2.1) hm.2
      (fun p hp p' hp' => hv p (List.mem_cons_of_mem _ hp) p' (List.mem_cons_of_mem _ hp'))
    rw [hc, ht]

/-- canonical form: a well-formed representation is determined by its breakpoints and its two
    one-sided limit functions -/
theorem Pwl.ext_of_eval {a b : Pwl} (ha : a.WF) (hb : b.WF) (hx : a.x = b.x)
    (hR : ∀ t, a.first ≤ t → t < a.last → a.evalR t = b.evalR t)
    (hL : ∀ t, a.first < t → t ≤ a.last → a.evalL t = b.evalL t) : a = b := by
  obtain ⟨c1, r1, p1, ch1, x1, e1, -, f1⟩ := ha.pieces
  obtain ⟨c2, r2, p2, ch2, x2, e2, -, f2⟩ := hb.pieces
  have hfirst : a.first = b.first := by unfold Pwl.first; rw [hx]
  have hax : a.x = a.first :: (c1 :: r1).map (·.xr) := by
    conv_lhs => rw [f1]
    rfl
  have hbx : b.x = b.first :: (c2 :: r2).map (·.xr) := by
    conv_lhs => rw [f2]
    rfl
  have hm : (c1 :: r1).map (·.xr) = (c2 :: r2).map (·.xr) := by
    rw [hax, hbx] at hx
    exact (List.cons.inj hx).2
  have hl : c1 :: r1 = c2 :: r2 := by
    refine chain_ext _ _ a.first ch1 ch2 (by simpa using x1.symm)
      (by simpa [hfirst] using x2.symm) hm ?_
    intro p hp p' hp' hxl hxr
    have hlt := ch1.mem_lt p hp
    have hlt' := ch2.mem_lt p' hp'
    have hlo : a.first ≤ p.xl := by rw [← x1]; exact ch1.xl_le_of_mem p hp
    have hhi : p.xr ≤ a.last := by rw [← e1]; exact ch1.xr_le_endX_of_mem p hp
    constructor
    · have := hR p.xl hlo (lt_of_lt_of_le hlt hhi)
      unfold Pwl.evalR at this
      rw [p1, p2, ch1.findR p hp p.xl (le_refl _) hlt,
        ch2.findR p' hp' p.xl (le_of_eq hxl.symm) (by rw [← hxr]; exact hlt)] at this
      simp only [Option.map_some, Option.some.injEq] at this
      rw [Piece.at_xl, hxl, Piece.at_xl] at this
      exact this
    · have := hL p.xr (lt_of_le_of_lt hlo hlt) hhi
      unfold Pwl.evalL at this
      rw [p1, p2, ch1.findL p hp p.xr hlt (le_refl _),
        ch2.findL p' hp' p.xr (by rw [← hxl]; exact hlt) (le_of_eq hxr)] at this
      simp only [Option.map_some, Option.some.injEq] at this
      rw [Piece.at_xr p hlt, hxr, Piece.at_xr p' hlt'] at this
      exact this
  rw [f1, f2, hl, hfirst]

example : exPwlF.add exPwlG = exPwlG.add exPwlF :=
  Pwl.ext_of_eval (Pwl.add_wf exPwlF_wf exPwlG_wf exPwlFG_first exPwlFG_last)
    (Pwl.add_wf exPwlG_wf exPwlF_wf exPwlFG_first.symm exPwlFG_last.symm) (by decide +kernel)
    (fun _ _ _ => by rw [Pwl.add_comm exPwlF_wf exPwlG_wf exPwlFG_first exPwlFG_last])
    (fun _ _ _ => by rw [Pwl.add_comm exPwlF_wf exPwlG_wf exPwlFG_first exPwlFG_last])

theorem Pwl.add_assoc {f g h : Pwl} (hf : f.WF) (hg : g.WF) (hh : h.WF)
    (h0 : f.first = g.first) (h0' : g.first = h.first) (h1 : f.last = g.last)
    (h1' : g.last = h.last) : (f.add g).add h = f.add (g.add h) := by
  have wfg := Pwl.add_wf hf hg h0 h1
  have wgh := Pwl.add_wf hg hh h0' h1'
  have ffg := Pwl.add_first hf hg h0 h1
  have fgh := Pwl.add_first hg hh h0' h1'
  have lfg := Pwl.add_last hf hg h0 h1
  have lgh := Pwl.add_last hg hh h0' h1'
  have a0 : (f.add g).first = h.first := by rw [ffg, h0, h0']
  have a1 : (f.add g).last = h.last := by rw [lfg, h1, h1']
  have b0 : f.first = (g.add h).first := by rw [fgh, h0]
  have b1 : f.last = (g.add h).last := by rw [lgh, h1]
  have wA := Pwl.add_wf wfg hh a0 a1
  have wB := Pwl.add_wf hf wgh b0 b1
  have fA : ((f.add g).add h).first = f.first := by rw [Pwl.add_first wfg hh a0 a1, ffg]
  have lA : ((f.add g).add h).last = f.last := by rw [Pwl.add_last wfg hh a0 a1, lfg]
  refine Pwl.ext_of_eval wA wB ?_ ?_ ?_
  · refine List.Pairwise.eq_of_mem_iff wA.2.2.1 wB.2.2.1 ?_
    intro x
    rw [Pwl.add_mem_x wfg hh a0 a1, Pwl.add_mem_x hf hg h0 h1, Pwl.add_mem_x hf wgh b0 b1,
      Pwl.add_mem_x hg hh h0' h1', or_assoc]
  · intro t ht0 ht1
    rw [fA] at ht0
    rw [lA] at ht1
    obtain ⟨v, w, e1, e2, e3⟩ := Pwl.add_evalR wfg hh a0 a1 t (by rw [ffg]; exact ht0)
      (by rw [lfg]; exact ht1)
    obtain ⟨v1, v2, e4, e5, e6⟩ := Pwl.add_evalR hf hg h0 h1 t ht0 ht1
    obtain ⟨v', w', e1', e2', e3'⟩ := Pwl.add_evalR hf wgh b0 b1 t ht0 ht1
    obtain ⟨w1, w2, e4', e5', e6'⟩ := Pwl.add_evalR hg hh h0' h1' t (by rw [← h0]; exact ht0)
      (by rw [← h1]; exact ht1)
    rw [e3, e3']
    rw [e1] at e6
    rw [e2'] at e6'
    rw [e4] at e1'
    rw [e5] at e4'
    rw [e2] at e5'
    simp only [Option.some.injEq] at e6 e6' e1' e4' e5' ⊢
    rw [e6, e6', ← e1', ← e4', ← e5']
    ring
  · intro t ht0 ht1
    rw [fA] at ht0
    rw [lA] at ht1
    obtain ⟨v, w, e1, e2, e3⟩ := Pwl.add_evalL wfg hh a0 a1 t (by rw [ffg]; exact ht0)
      (by rw [lfg]; exact ht1)
    obtain ⟨v1, v2, e4, e5, e6⟩ := Pwl.add_evalL hf hg h0 h1 t ht0 ht1
    obtain ⟨v', w', e1', e2', e3'⟩ := Pwl.add_evalL hf wgh b0 b1 t ht0 ht1
    obtain ⟨w1, w2, e4', e5', e6'⟩ := Pwl.add_evalL hg hh h0' h1' t (by rw [← h0]; exact ht0)
      (by rw [← h1]; exact ht1)
    rw [e3, e3']
    rw [e1] at e6
    rw [e2'] at e6'
    rw [e4] at e1'
    rw [e5] at e4'
    rw [e2] at e5'
    simp only [Option.some.injEq] at e6 e6' e1' e4' e5' ⊢
    rw [e6, e6', ← e1', ← e4', ← e5']
    ring

example : (exPwlF.add exPwlG).add exPwlH = exPwlF.add (exPwlG.add exPwlH) :=
  Pwl.add_assoc exPwlF_wf exPwlG_wf exPwlH_wf exPwlFG_first exPwlGH_first exPwlFG_last exPwlGH_last

end PySpike
