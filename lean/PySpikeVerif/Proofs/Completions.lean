/-
  Proofs/Completions.lean — work package F6: completions for C09 / C10 / C14 / C15
  (CLAUSES.md gaps 10, 11, 13, 15).

  §1 (C10)  `get_plottable_data` of PieceWiseLinFunc.
  §2 (C14)  the two-index call forms `indices = [i, j]` of every multivariate function.
  §3 (C09)  breakpoints of a history = union of the breakpoints of the operands.
  §4 (C15)  multivariate MRTS-monotonicity and the assembled automatic threshold.
-/
import PySpikeVerif.Proofs.Integral
import PySpikeVerif.Proofs.ApiLaws
import PySpikeVerif.Proofs.OrderLaws
import PySpikeVerif.Proofs.History
import PySpikeVerif.Proofs.MultiLaws
import PySpikeVerif.Proofs.MrtsLaws
import PySpikeVerif.Proofs.SpikeSymm
import PySpikeVerif.Proofs.Reconcile

namespace PySpike
open PySpike.C01

/-! ## §1  C10 — plottable arrays of a piecewise-linear function -/

/-- **C10, `PieceWiseLinFunc.get_plottable_data`**: both arrays have two entries per piece; entries
    `2k`, `2k+1` of the x-array are the end points `x_k`, `x_{k+1}` of piece `k`, those of the y-array
    are its values `y1_k` (at the left end) and `y2_k` (at the right end). -/
theorem F6_pwl_plottable {f : Pwl} (hf : f.WF) :
    f.plottable.1.length = 2 * f.y1.length ∧ f.plottable.2.length = 2 * f.y1.length ∧
    ∀ k, k < f.y1.length →
      f.plottable.1[2 * k]? = some (nth f.x k) ∧ f.plottable.1[2 * k + 1]? = some (nth f.x (k + 1)) ∧
      f.plottable.2[2 * k]? = some (nth f.y1 k) ∧ f.plottable.2[2 * k + 1]? = some (nth f.y2 k) :=
  (Pwl.plottable_spec hf).2

/-- the same with the pieces made explicit: the arrays are the concatenation over the pieces of
    `[left end, right end]` and `[left value, right value]` -/
theorem F6_pwl_plottable_pieces (f : Pwl) :
    f.plottable = (f.pieces.flatMap (fun p => [p.xl, p.xr]), f.pieces.flatMap (fun p => [p.yl, p.yr])) :=
  rfl

/-- consecutive pieces share their x-entry (`x[2k+1] = x[2k+2]`): the plotted polygon is connected
    in `x`, while the y-entries `y2_k`, `y1_{k+1}` may differ (a jump of the profile) -/
theorem F6_pwl_plottable_joint {f : Pwl} (hf : f.WF) (k : Nat) (hk : k + 1 < f.y1.length) :
    f.plottable.1[2 * k + 1]? = f.plottable.1[2 * (k + 1)]? := by
  obtain ⟨_, _, h⟩ := F6_pwl_plottable hf
  rw [(h k (by omega)).2.1, (h (k + 1) hk).1]

def F6_exPwl : Pwl := ⟨[0, 1, 3, 4], [2, 5, -1], [3, 1, 0]⟩
theorem F6_exPwl_WF : F6_exPwl.WF := by
  refine ⟨by decide, by decide, by decide +kernel, by decide⟩
example : F6_exPwl.plottable = ([0, 1, 1, 3, 3, 4], [2, 3, 5, 1, -1, 0]) := by decide +kernel

/-! ## §2  C14 — `indices = [i, j]` is the two-train call

  General forms (every keyword record, every `i j`): the multivariate function with
  `indices = [i, j]` is the bivariate function — reconciliation switched off — on trains `i`, `j` of
  the prepared (reconciled if `kw.recon`) list.  Corollaries for `kw.recon = false`: the bivariate
  function with the same `kw` on `tr L i`, `tr L j`. -/

theorem F6_pairsOf_two (i j : Nat) : pairsOf [i, j] = [(i, j)] := rfl

theorem F6_gpm_two_idx {P} (add : P → P → P) (leaf : Nat × Nat → P) (i j : Nat) :
    genericProfileMulti add leaf [i, j] = (leaf (i, j), 1) := by
  simp [genericProfileMulti, F6_pairsOf_two]

theorem F6_gdm_two_idx (dist : Train → Train → Option Q) (L : List Train) (i j : Nat) :
    genericDistanceMulti dist [i, j] L = dist (tr L i) (tr L j) := by
  simp only [genericDistanceMulti, F6_pairsOf_two, List.map_cons, List.map_nil,
    List.length_cons, List.length_nil]
  cases dist (tr L i) (tr L j) with
  | none => rfl
  | some v => simp [sumOpt]

theorem F6_isiProfileMulti_two (kw : Kw) (L : List Train) (i j : Nat) :
    isiProfileMulti kw (some [i, j]) L
      = isiProfileBi kw.noRecon (tr (prep kw L) i) (tr (prep kw L) j) := by
  unfold isiProfileMulti
  simp only [resolveIdx, F6_gpm_two_idx]
  norm_num [Pwc.mulScalar_one]

theorem F6_spikeProfileMulti_two (kw : Kw) (L : List Train) (i j : Nat) :
    spikeProfileMulti kw (some [i, j]) L
      = spikeProfileBi kw.noRecon (tr (prep kw L) i) (tr (prep kw L) j) := by
  unfold spikeProfileMulti
  simp only [resolveIdx, F6_gpm_two_idx]
  norm_num [Pwl.mulScalar_one]

theorem F6_syncProfileMulti_two (kw : Kw) (L : List Train) (i j : Nat) :
    syncProfileMulti kw (some [i, j]) L
      = syncProfileBi kw.noRecon (tr (prep kw L) i) (tr (prep kw L) j) := by
  unfold syncProfileMulti
  simp only [resolveIdx, F6_gpm_two_idx]

theorem F6_orderProfileMulti_two (kw : Kw) (L : List Train) (i j : Nat) :
    orderProfileMulti kw (some [i, j]) L
      = orderProfileBi kw.noRecon (tr (prep kw L) i) (tr (prep kw L) j) := by
  unfold orderProfileMulti
  simp only [resolveIdx, F6_gpm_two_idx]

theorem F6_isiDistanceMulti_two (kw : Kw) (L : List Train) (i j : Nat) :
    isiDistanceMulti kw (some [i, j]) L
      = isiDistanceBi kw.noRecon (tr (prep kw L) i) (tr (prep kw L) j) := by
  unfold isiDistanceMulti
  simp only [resolveIdx, F6_gdm_two_idx]

theorem F6_spikeDistanceMulti_two (kw : Kw) (L : List Train) (i j : Nat) :
    spikeDistanceMulti kw (some [i, j]) L
      = spikeDistanceBi kw.noRecon (tr (prep kw L) i) (tr (prep kw L) j) := by
  unfold spikeDistanceMulti
  simp only [resolveIdx, F6_gdm_two_idx]

theorem F6_spikeSyncMulti_two (kw : Kw) (L : List Train) (i j : Nat) :
    spikeSyncMulti kw (some [i, j]) L
      = spikeSyncBi kw.noRecon (tr (prep kw L) i) (tr (prep kw L) j) := by
  unfold spikeSyncMulti spikeSyncBi
  simp only [resolveIdx, F6_pairsOf_two, List.map_cons, List.map_nil]
  cases syncValues kw.noRecon (tr (prep kw L) i) (tr (prep kw L) j) with
  | none => rfl
  | some v => simp [sumOpt2]

/-- `spike_train_order` always reconciles the pair once more (idempotent), hence `kw` and not
    `kw.noRecon` on the right-hand side -/
theorem F6_spikeTrainOrderMulti_two (kw : Kw) (L : List Train) (i j : Nat) :
    spikeTrainOrderMulti kw (some [i, j]) L
      = spikeTrainOrderBi kw true (tr (prep kw L) i) (tr (prep kw L) j) := by
  unfold spikeTrainOrderMulti spikeTrainOrderBi
  simp only [resolveIdx, F6_pairsOf_two, List.foldl_cons, List.foldl_nil, zero_add]
  rfl

/-- the directionality values with `indices = [i, j]`: one list per selected train, namely the two
    components of the bivariate directionality profile of trains `i`, `j` (prepared list, edges of
    train `i`) -/
theorem F6_dirValues_two (kw : Kw) (L : List Train) (i j : Nat) :
    dirValues kw (some [i, j]) L
      = [(dirProfile (tr (prep kw L) i).spikes (tr (prep kw L) j).spikes (tr (prep kw L) i).ts
            (tr (prep kw L) i).te kw.maxTau kw.mrts).1,
         (dirProfile (tr (prep kw L) i).spikes (tr (prep kw L) j).spikes (tr (prep kw L) i).ts
            (tr (prep kw L) i).te kw.maxTau kw.mrts).2] := by
  have hp : posPairs 2 = [(0, 1)] := pairsOf_range_two
  have hl := B2_dirProfile_length (tr (prep kw L) i).spikes (tr (prep kw L) j).spikes
    (tr (prep kw L) i).ts (tr (prep kw L) i).te kw.maxTau kw.mrts
  have h1 : ((2 : Nat) : Q) - 1 = 1 := by norm_num
  unfold dirValues
  simp only [resolveIdx, List.length_cons, List.length_nil, Nat.zero_add, Nat.reduceAdd, hp,
    List.map_cons, List.map_nil, List.foldl_cons, List.foldl_nil, List.getD_cons_zero,
    List.getD_cons_succ, List.set_cons_zero, List.set_cons_succ, h1, div_one, List.map_id']
  rw [B2_addLists_zero _ _ hl.1, B2_addLists_zero _ _ hl.2]

/-! ### corollaries: `kw.recon = false` (valid trains — reconciliation is the identity, C13) -/
section
variable (kw : Kw) (L : List Train) (i j : Nat) (hr : kw.recon = false)
include hr

/-- **C14**: a longer list with `indices = [i, j]` = the two-train call — SPIKE distance -/
theorem F6_spike_distance_two_indices :
    spikeDistanceMulti kw (some [i, j]) L = spikeDistanceBi kw (tr L i) (tr L j) := by
  rw [F6_spikeDistanceMulti_two, prep_of_recon_false kw L hr, Kw.noRecon_eq kw hr]

/-- … SPIKE-Sync profile -/
theorem F6_sync_profile_two_indices :
    syncProfileMulti kw (some [i, j]) L = syncProfileBi kw (tr L i) (tr L j) := by
  rw [F6_syncProfileMulti_two, prep_of_recon_false kw L hr, Kw.noRecon_eq kw hr]

/-- … spike-train-order profile -/
theorem F6_order_profile_two_indices :
    orderProfileMulti kw (some [i, j]) L = orderProfileBi kw (tr L i) (tr L j) := by
  rw [F6_orderProfileMulti_two, prep_of_recon_false kw L hr, Kw.noRecon_eq kw hr]

/-- … directionality values: the two value lists of the bivariate directionality profile, which
    are exactly what `spike_directionality_values(st_i, st_j)` returns (`dirValues kw none [a, b]`) -/
theorem F6_directionality_values_two_indices :
    dirValues kw (some [i, j]) L = dirValues kw none [tr L i, tr L j] ∧
    dirValues kw (some [i, j]) L
      = [(dirProfile (tr L i).spikes (tr L j).spikes (tr L i).ts (tr L i).te kw.maxTau kw.mrts).1,
         (dirProfile (tr L i).spikes (tr L j).spikes (tr L i).ts (tr L i).te kw.maxTau kw.mrts).2] := by
  have h2 := F6_dirValues_two kw L i j
  rw [prep_of_recon_false kw L hr] at h2
  refine ⟨?_, h2⟩
  rw [h2, B2_dirValues_pair kw [tr L i, tr L j] (tr L i) (tr L j) (prep_of_recon_false kw _ hr)]

/-- the remaining forms (already in `Properties/C14.lean` under the extra hypotheses `i, j < |L|`)
    hold for all `i j` -/
theorem F6_isi_profile_two_indices :
    isiProfileMulti kw (some [i, j]) L = isiProfileBi kw (tr L i) (tr L j) := by
  rw [F6_isiProfileMulti_two, prep_of_recon_false kw L hr, Kw.noRecon_eq kw hr]
theorem F6_spike_profile_two_indices :
    spikeProfileMulti kw (some [i, j]) L = spikeProfileBi kw (tr L i) (tr L j) := by
  rw [F6_spikeProfileMulti_two, prep_of_recon_false kw L hr, Kw.noRecon_eq kw hr]
theorem F6_isi_distance_two_indices :
    isiDistanceMulti kw (some [i, j]) L = isiDistanceBi kw (tr L i) (tr L j) := by
  rw [F6_isiDistanceMulti_two, prep_of_recon_false kw L hr, Kw.noRecon_eq kw hr]
theorem F6_spike_sync_two_indices :
    spikeSyncMulti kw (some [i, j]) L = spikeSyncBi kw (tr L i) (tr L j) := by
  rw [F6_spikeSyncMulti_two, prep_of_recon_false kw L hr, Kw.noRecon_eq kw hr]
theorem F6_order_two_indices :
    spikeTrainOrderMulti kw (some [i, j]) L = spikeTrainOrderBi kw true (tr L i) (tr L j) := by
  rw [F6_spikeTrainOrderMulti_two, prep_of_recon_false kw L hr]
end

def F6_exL : List Train := [⟨[1, 5, 9], 0, 10⟩, ⟨[2, 5], 0, 10⟩, ⟨[1, 4, 8], 0, 10⟩]
example : ({ recon := false } : Kw).recon = false := rfl
example : spikeDistanceMulti { recon := false } (some [2, 0]) F6_exL
    = spikeDistanceBi { recon := false } ⟨[1, 4, 8], 0, 10⟩ ⟨[1, 5, 9], 0, 10⟩ :=
  F6_spike_distance_two_indices _ _ _ _ rfl
example : dirValues { recon := false } (some [2, 0]) F6_exL
    = dirValues { recon := false } none [⟨[1, 4, 8], 0, 10⟩, ⟨[1, 5, 9], 0, 10⟩] :=
  (F6_directionality_values_two_indices _ _ _ _ rfl).1

/-! ## §3  C09 — breakpoints after a history = union of the breakpoints of the operands -/

section history
open PySpike.C09 (Op)
open PySpike.B7

/-- symbolic history of *operand sets*: for every live object the list of (indices of the) initial
    objects it was built from. `add i j`: union; `mul_scalar`: unchanged; `copy`: the same list. -/
def F6_ostep (os : List (List Nat)) : Op → List (List Nat)
  | .add i j => if i < os.length ∧ j < os.length then os.set i (os.getD i [] ++ os.getD j []) else os
  | .mul _ _ => os
  | .copy i => if i < os.length then os ++ [os.getD i []] else os

/-- operand sets after the history `ops`, starting from `n` initial objects (object `k` = `{k}`) -/
def F6_operands (n : Nat) (ops : List Op) : List (List Nat) :=
  ops.foldl F6_ostep ((List.range n).map fun k => [k])

theorem F6_getD_set {α} (l : List α) (i k : Nat) (v d : α) (hi : i < l.length) :
    (l.set i v).getD k d = if k = i then v else l.getD k d := by
  simp only [List.getD_eq_getElem?_getD, List.getElem?_set]
  by_cases h : i = k
  · subst h; simp [hi]
  · rw [if_neg h, if_neg (Ne.symm h)]

theorem F6_getD_snoc {α} (l : List α) (k : Nat) (v d : α) (hk : k ≤ l.length) :
    (l ++ [v]).getD k d = if k = l.length then v else l.getD k d := by
  simp only [List.getD_eq_getElem?_getD]
  by_cases h : k = l.length
  · subst h; simp
  · rw [if_neg h, List.getElem?_append_left (by omega)]

/-- the invariant: same length, every operand index is an initial object, and the breakpoints of
    object `k` are the union of the breakpoints of its operands -/
def F6_BpInv (A : FuncAlg) (bp : A.F → List Q) (init st : List A.F) (os : List (List Nat)) : Prop :=
  st.length = os.length ∧
  ∀ k, k < st.length →
    (∀ j ∈ os.getD k [], j < init.length) ∧
    ∀ x, x ∈ bp (st.getD k A.dflt) ↔ ∃ j ∈ os.getD k [], x ∈ bp (init.getD j A.dflt)

theorem F6_step_bp (A : FuncAlg) (bp : A.F → List Q)
    (hadd : ∀ {a b : Q} {f g : A.F}, A.On a b f → A.On a b g →
      ∀ x, x ∈ bp (A.add f g) ↔ x ∈ bp f ∨ x ∈ bp g)
    (hmul : ∀ (f : A.F) (c : Q), bp (A.mul f c) = bp f)
    (a b : Q) (init st : List A.F) (os : List (List Nat)) (op : Op)
    (hok : StoreOK A a b st) (h : F6_BpInv A bp init st os) :
    F6_BpInv A bp init (step A st op) (F6_ostep os op) := by
  obtain ⟨hlen, hinv⟩ := h
  have hmem : ∀ k, k < st.length → A.On a b (st.getD k A.dflt) := by
    intro k hk
    rw [C09.getD_lt _ _ hk]
    exact hok _ (List.getElem_mem hk)
  cases op with
  | add i j =>
    show F6_BpInv A bp init (if i < st.length ∧ j < st.length then _ else st)
      (if i < os.length ∧ j < os.length then _ else os)
    by_cases hij : i < st.length ∧ j < st.length
    · have hij' : i < os.length ∧ j < os.length := by rw [← hlen]; exact hij
      rw [if_pos hij, if_pos hij']
      refine ⟨by simp [hlen], ?_⟩
      intro k hk
      rw [List.length_set] at hk
      rw [F6_getD_set _ _ _ _ _ hij.1, F6_getD_set _ _ _ _ _ hij'.1]
      by_cases hki : k = i
      · rw [if_pos hki, if_pos hki]
        obtain ⟨hbi, hxi⟩ := hinv i hij.1
        obtain ⟨hbj, hxj⟩ := hinv j hij.2
        refine ⟨?_, ?_⟩
        · intro m hm
          rcases List.mem_append.mp hm with hm | hm
          · exact hbi m hm
          · exact hbj m hm
        · intro x
          rw [hadd (hmem i hij.1) (hmem j hij.2) x, hxi x, hxj x]
          constructor
          · rintro (⟨m, hm, hx⟩ | ⟨m, hm, hx⟩)
            · exact ⟨m, List.mem_append_left _ hm, hx⟩
            · exact ⟨m, List.mem_append_right _ hm, hx⟩
          · rintro ⟨m, hm, hx⟩
            rcases List.mem_append.mp hm with hm | hm
            · exact Or.inl ⟨m, hm, hx⟩
            · exact Or.inr ⟨m, hm, hx⟩
      · rw [if_neg hki, if_neg hki]
        exact hinv k hk
    · have hij' : ¬ (i < os.length ∧ j < os.length) := by rw [← hlen]; exact hij
      rw [if_neg hij, if_neg hij']
      exact ⟨hlen, hinv⟩
  | mul i c =>
    show F6_BpInv A bp init (if i < st.length then _ else st) os
    by_cases hi : i < st.length
    · rw [if_pos hi]
      refine ⟨by simp [hlen], ?_⟩
      intro k hk
      rw [List.length_set] at hk
      rw [F6_getD_set _ _ _ _ _ hi]
      by_cases hki : k = i
      · rw [if_pos hki, hmul]
        subst hki
        exact hinv k hi
      · rw [if_neg hki]
        exact hinv k hk
    · rw [if_neg hi]
      exact ⟨hlen, hinv⟩
  | copy i =>
    show F6_BpInv A bp init (if i < st.length then _ else st) (if i < os.length then _ else os)
    by_cases hi : i < st.length
    · have hi' : i < os.length := by rw [← hlen]; exact hi
      rw [if_pos hi, if_pos hi']
      refine ⟨by simp [hlen], ?_⟩
      intro k hk
      rw [List.length_append, List.length_singleton] at hk
      rw [F6_getD_snoc _ _ _ _ (by omega), F6_getD_snoc _ _ _ _ (by omega), ← hlen]
      by_cases hke : k = st.length
      · rw [if_pos hke, if_pos hke]
        exact hinv i hi
      · rw [if_neg hke, if_neg hke]
        exact hinv k (by omega)
    · have hi' : ¬ i < os.length := by rw [← hlen]; exact hi
      rw [if_neg hi, if_neg hi']
      exact ⟨hlen, hinv⟩

theorem F6_run_bp (A : FuncAlg) (bp : A.F → List Q)
    (hadd : ∀ {a b : Q} {f g : A.F}, A.On a b f → A.On a b g →
      ∀ x, x ∈ bp (A.add f g) ↔ x ∈ bp f ∨ x ∈ bp g)
    (hmul : ∀ (f : A.F) (c : Q), bp (A.mul f c) = bp f)
    (a b : Q) (init : List A.F) (ops : List Op) (st : List A.F) (os : List (List Nat))
    (hok : StoreOK A a b st) (h : F6_BpInv A bp init st os) :
    F6_BpInv A bp init (run A st ops) (ops.foldl F6_ostep os) := by
  induction ops generalizing st os with
  | nil => exact h
  | cons op r ih =>
    exact ih _ _ (step_ok A a b st op hok) (F6_step_bp A bp hadd hmul a b init st os op hok h)

theorem F6_init_bp (A : FuncAlg) (bp : A.F → List Q) (init : List A.F) :
    F6_BpInv A bp init init ((List.range init.length).map fun k => [k]) := by
  refine ⟨by simp, ?_⟩
  intro k hk
  have e : ((List.range init.length).map fun k => [k]).getD k [] = [k] := by
    rw [List.getD_eq_getElem _ _ (by simpa using hk)]
    simp
  rw [e]
  exact ⟨by simpa using hk, by simp⟩

/-- generic form: for any function class whose `add` unites and whose `mul_scalar` keeps the
    breakpoints, after ANY history object `k` has exactly the breakpoints of its operands -/
theorem F6_history_breakpoints_generic (A : FuncAlg) (bp : A.F → List Q)
    (hadd : ∀ {a b : Q} {f g : A.F}, A.On a b f → A.On a b g →
      ∀ x, x ∈ bp (A.add f g) ↔ x ∈ bp f ∨ x ∈ bp g)
    (hmul : ∀ (f : A.F) (c : Q), bp (A.mul f c) = bp f)
    (a b : Q) (init : List A.F) (ops : List Op) (hok : StoreOK A a b init) :
    (run A init ops).length = (F6_operands init.length ops).length ∧
    ∀ k (hk : k < (run A init ops).length),
      (∀ j ∈ (F6_operands init.length ops).getD k [], j < init.length) ∧
      ∀ x, x ∈ bp ((run A init ops)[k]) ↔
        ∃ j ∈ (F6_operands init.length ops).getD k [], ∃ hj : j < init.length, x ∈ bp (init[j]) := by
  obtain ⟨hlen, hinv⟩ := F6_run_bp A bp hadd hmul a b init ops init _ hok (F6_init_bp A bp init)
  refine ⟨hlen, ?_⟩
  intro k hk
  obtain ⟨hb, hx⟩ := hinv k hk
  refine ⟨hb, ?_⟩
  intro x
  rw [C09.getD_lt _ _ hk] at hx
  rw [hx x]
  constructor
  · rintro ⟨j, hj, hxj⟩
    refine ⟨j, hj, hb j hj, ?_⟩
    rwa [C09.getD_lt _ _ (hb j hj)] at hxj
  · rintro ⟨j, hj, hjl, hxj⟩
    refine ⟨j, hj, ?_⟩
    rwa [C09.getD_lt _ _ hjl]

/-- **C09, breakpoints of a history (piecewise constant)**: after any sequence of
    add / mul_scalar / copy on well-formed functions on a common interval, `x` is a breakpoint of
    object `k` iff it is a breakpoint of one of the initial functions `k` was built from
    (`F6_operands`: `add` unites, `mul_scalar` and `copy` keep the operand set).  Together with
    well-formedness (`C09.history_refines`: strictly increasing) this fixes the breakpoint array. -/
theorem F6_pwc_history_breakpoints (a b : Q) (init : List Pwc) (ops : List Op)
    (hok : ∀ f ∈ init, f.WF ∧ f.first = a ∧ f.last = b) :
    (C09.run init ops).length = (F6_operands init.length ops).length ∧
    ∀ k (hk : k < (C09.run init ops).length),
      (∀ j ∈ (F6_operands init.length ops).getD k [], j < init.length) ∧
      ∀ x, x ∈ ((C09.run init ops)[k]).x ↔
        ∃ j ∈ (F6_operands init.length ops).getD k [], ∃ hj : j < init.length, x ∈ (init[j]).x := by
  have h := F6_history_breakpoints_generic pwcAlg Pwc.x
    (fun hf hg => Pwc.add_mem_x hf.1 hg.1 (hf.2.1.trans hg.2.1.symm)
      (hf.2.2.trans hg.2.2.symm))
    (fun _ _ => rfl) a b init ops hok
  simp only [← pwc_run_eq] at h
  exact h

/-- **C09, breakpoints of a history (piecewise linear)** -/
theorem F6_pwl_history_breakpoints (a b : Q) (init : List Pwl) (ops : List Op)
    (hok : ∀ f ∈ init, f.WF ∧ f.first = a ∧ f.last = b) :
    (B7.run pwlAlg init ops).length = (F6_operands init.length ops).length ∧
    ∀ k (hk : k < (B7.run pwlAlg init ops).length),
      (∀ j ∈ (F6_operands init.length ops).getD k [], j < init.length) ∧
      ∀ x, x ∈ ((B7.run pwlAlg init ops)[k]).x ↔
        ∃ j ∈ (F6_operands init.length ops).getD k [], ∃ hj : j < init.length, x ∈ (init[j]).x :=
  F6_history_breakpoints_generic pwlAlg Pwl.x
    (fun hf hg => Pwl.add_mem_x hf.1 hg.1 (hf.2.1.trans hg.2.1.symm)
      (hf.2.2.trans hg.2.2.symm))
    (fun _ _ => rfl) a b init ops hok

/-- one-step facts for piecewise-linear functions (the `Pwc` forms are `C09.pwc_add_*`):
    breakpoints of a sum = union; commutative and associative as representations -/
theorem F6_pwl_add_breakpoints {f g : Pwl} (hf : f.WF) (hg : g.WF) (h0 : f.first = g.first)
    (h1 : f.last = g.last) : ∀ x, x ∈ (f.add g).x ↔ x ∈ f.x ∨ x ∈ g.x :=
  Pwl.add_mem_x hf hg h0 h1
theorem F6_pwl_add_comm {f g : Pwl} (hf : f.WF) (hg : g.WF) (h0 : f.first = g.first)
    (h1 : f.last = g.last) : f.add g = g.add f := Pwl.add_comm hf hg h0 h1
theorem F6_pwl_add_assoc {f g h : Pwl} (hf : f.WF) (hg : g.WF) (hh : h.WF)
    (h0 : f.first = g.first) (h0' : g.first = h.first) (h1 : f.last = g.last)
    (h1' : g.last = h.last) : (f.add g).add h = f.add (g.add h) :=
  Pwl.add_assoc hf hg hh h0 h0' h1 h1'

/-! non-vacuity: the history of `C09` (`copy 0, add 0 1, mul 0 2, add 2 0`) -/
example : F6_operands 2 [.copy 0, .add 0 1, .mul 0 2, .add 2 0] = [[0, 1], [1], [0, 0, 1]] := by
  decide
example : ∀ f ∈ [C09.e1, C09.e2], f.WF ∧ f.first = 0 ∧ f.last = 3 := exPwc_ok
example : ∀ f ∈ [exPwlF, exPwlG], f.WF ∧ f.first = 0 ∧ f.last = 3 := exPwl_ok

end history

section history2
open PySpike.C09 (Op unitVec)
open PySpike.B7

/-! ### operand sets contain the support of the coefficient vectors -/

theorem F6_zipWith_getD_ne : ∀ (l1 l2 : List Q) (m : Nat),
    (List.zipWith (· + ·) l1 l2).getD m 0 ≠ 0 → l1.getD m 0 ≠ 0 ∨ l2.getD m 0 ≠ 0
  | [], _, m, h => by simp at h
  | _ :: _, [], m, h => by simp at h
  | a :: l1, b :: l2, 0, h => by
    simp only [List.zipWith_cons_cons, List.getD_cons_zero] at h ⊢
    by_contra hn
    simp only [not_or, not_not] at hn
    exact h (by rw [hn.1, hn.2]; norm_num)
  | a :: l1, b :: l2, m + 1, h => by
    simp only [List.zipWith_cons_cons, List.getD_cons_succ] at h ⊢
    exact F6_zipWith_getD_ne l1 l2 m h

theorem F6_map_mul_getD_ne (l : List Q) (c : Q) (m : Nat) (h : (l.map (· * c)).getD m 0 ≠ 0) :
    l.getD m 0 ≠ 0 := by
  by_cases hm : m < l.length
  · rw [List.getD_eq_getElem _ _ (by simpa using hm)] at h
    rw [List.getD_eq_getElem _ _ hm]
    intro h0
    apply h
    simp [h0]
  · exact absurd (List.getD_eq_default _ _ (by simp; omega)) h

theorem F6_unitVec_getD_ne (n k j : Nat) (h : (unitVec n k).getD j 0 ≠ 0) : j = k := by
  unfold unitVec at h
  by_cases hj : j < n
  · rw [List.getD_eq_getElem _ _ (by simpa using hj)] at h
    simp only [List.getElem_map, List.getElem_range] at h
    by_contra hne
    exact h (if_neg hne)
  · exact absurd (List.getD_eq_default _ _ (by simp; omega)) h

def F6_SuppInv (gs : List (List Q)) (os : List (List Nat)) : Prop :=
  gs.length = os.length ∧
  ∀ k, k < gs.length → ∀ j, (gs.getD k []).getD j 0 ≠ 0 → j ∈ os.getD k []

theorem F6_step_supp (sc : Q → Q) (gs : List (List Q)) (os : List (List Nat)) (op : Op)
    (h : F6_SuppInv gs os) : F6_SuppInv (gstep sc gs op) (F6_ostep os op) := by
  obtain ⟨hlen, hinv⟩ := h
  cases op with
  | add i j =>
    show F6_SuppInv (if i < gs.length ∧ j < gs.length then _ else gs)
      (if i < os.length ∧ j < os.length then _ else os)
    by_cases hij : i < gs.length ∧ j < gs.length
    · have hij' : i < os.length ∧ j < os.length := by rw [← hlen]; exact hij
      rw [if_pos hij, if_pos hij']
      refine ⟨by simp [hlen], ?_⟩
      intro k hk m hm
      rw [List.length_set] at hk
      rw [F6_getD_set _ _ _ _ _ hij.1] at hm
      rw [F6_getD_set _ _ _ _ _ hij'.1]
      by_cases hki : k = i
      · rw [if_pos hki] at hm ⊢
        rcases F6_zipWith_getD_ne _ _ _ hm with h1 | h1
        · exact List.mem_append_left _ (hinv i hij.1 m h1)
        · exact List.mem_append_right _ (hinv j hij.2 m h1)
      · rw [if_neg hki] at hm ⊢
        exact hinv k hk m hm
    · have hij' : ¬ (i < os.length ∧ j < os.length) := by rw [← hlen]; exact hij
      rw [if_neg hij, if_neg hij']
      exact ⟨hlen, hinv⟩
  | mul i c =>
    show F6_SuppInv (if i < gs.length then _ else gs) os
    by_cases hi : i < gs.length
    · rw [if_pos hi]
      refine ⟨by simp [hlen], ?_⟩
      intro k hk m hm
      rw [List.length_set] at hk
      rw [F6_getD_set _ _ _ _ _ hi] at hm
      by_cases hki : k = i
      · rw [if_pos hki] at hm
        subst hki
        exact hinv k hi m (F6_map_mul_getD_ne _ _ _ hm)
      · rw [if_neg hki] at hm
        exact hinv k hk m hm
    · rw [if_neg hi]
      exact ⟨hlen, hinv⟩
  | copy i =>
    show F6_SuppInv (if i < gs.length then _ else gs) (if i < os.length then _ else os)
    by_cases hi : i < gs.length
    · have hi' : i < os.length := by rw [← hlen]; exact hi
      rw [if_pos hi, if_pos hi']
      refine ⟨by simp [hlen], ?_⟩
      intro k hk m hm
      rw [List.length_append, List.length_singleton] at hk
      rw [F6_getD_snoc _ _ _ _ (by omega)] at hm
      rw [F6_getD_snoc _ _ _ _ (by omega), ← hlen]
      by_cases hke : k = gs.length
      · rw [if_pos hke] at hm ⊢
        exact hinv i hi m hm
      · rw [if_neg hke] at hm ⊢
        exact hinv k (by omega) m hm
    · have hi' : ¬ i < os.length := by rw [← hlen]; exact hi
      rw [if_neg hi, if_neg hi']
      exact ⟨hlen, hinv⟩

/-- the operand set of object `k` contains the support of its coefficient vector (`gstep`, the
    symbolic history of `C09.history_refines` / `pwl_history_refines`): every initial function that
    enters object `k` with a non-zero coefficient contributes its breakpoints.  (The converse fails
    by design: `f + (-1)·f` and `0·f` keep the breakpoints of `f`, as the code does.) -/
theorem F6_support_subset_operands (sc : Q → Q) (n : Nat) (ops : List Op) :
    (ops.foldl (gstep sc) (unitVecs n)).length = (F6_operands n ops).length ∧
    ∀ k, k < (F6_operands n ops).length → ∀ j,
      ((ops.foldl (gstep sc) (unitVecs n)).getD k []).getD j 0 ≠ 0 →
      j ∈ (F6_operands n ops).getD k [] := by
  have h0 : F6_SuppInv (unitVecs n) ((List.range n).map fun k => [k]) := by
    refine ⟨by simp [unitVecs], ?_⟩
    intro k hk j hj
    have hk' : k < n := by simpa [unitVecs] using hk
    have e1 : (unitVecs n).getD k [] = unitVec n k := by
      unfold unitVecs
      rw [List.getD_eq_getElem _ _ (by simpa using hk')]
      simp
    have e2 : ((List.range n).map fun k => [k]).getD k [] = [k] := by
      rw [List.getD_eq_getElem _ _ (by simpa using hk')]
      simp
    rw [e1] at hj
    rw [e2, F6_unitVec_getD_ne n k j hj]
    simp
  have : ∀ (ops : List Op) (gs : List (List Q)) (os : List (List Nat)), F6_SuppInv gs os →
      F6_SuppInv (ops.foldl (gstep sc) gs) (ops.foldl F6_ostep os) := by
    intro ops
    induction ops with
    | nil => intro gs os h; exact h
    | cons op r ih => intro gs os h; exact ih _ _ (F6_step_supp sc gs os op h)
  obtain ⟨hl, hi⟩ := this ops _ _ h0
  refine ⟨hl, ?_⟩
  intro k hk j hj
  exact hi k (by rw [hl]; exact hk) j hj

example : (([Op.copy 0, .add 0 1, .mul 0 2, .add 2 0] : List Op).foldl (gstep id) (unitVecs 2))
    = [[2, 2], [0, 1], [3, 2]] := by decide +kernel

end history2

/-! ## §4  C15 — multivariate MRTS monotonicity -/

/-- relational parametricity of `divide_and_conquer`: a relation between the leaves that `add`
    preserves holds between the results -/
theorem F6_dac_rel {P} (add : P → P → P) (leaf1 leaf2 : Nat × Nat → P) (R : P → P → Prop)
    (hadd : ∀ a a' b b', R a a' → R b b' → R (add a b) (add a' b')) (fuel : Nat) :
    ∀ (p1 p2 : List (Nat × Nat)), p1 ≠ [] → p2 ≠ [] → p1.length + p2.length ≤ fuel →
      (∀ p ∈ p1, R (leaf1 p) (leaf2 p)) → (∀ p ∈ p2, R (leaf1 p) (leaf2 p)) →
      R (divideAndConquer add leaf1 fuel p1 p2) (divideAndConquer add leaf2 fuel p1 p2) := by
  induction fuel with
  | zero =>
    intro p1 p2 h1 _ hlen
    have : p1.length = 0 := by omega
    exact absurd (List.eq_nil_of_length_eq_zero this) h1
  | succ fuel ih =>
    intro p1 p2 h1 h2 hlen hl1 hl2
    have hp1 : 0 < p1.length := List.length_pos_iff.mpr h1
    have hp2 : 0 < p2.length := List.length_pos_iff.mpr h2
    have hd : ∀ (q : List (Nat × Nat)), q ≠ [] → q.length ≤ fuel →
        (∀ p ∈ q, R (leaf1 p) (leaf2 p)) →
        R (if q.length > 1 then
            divideAndConquer add leaf1 fuel (q.take (q.length / 2)) (q.drop (q.length / 2))
           else leaf1 (q.headD (0, 0)))
          (if q.length > 1 then
            divideAndConquer add leaf2 fuel (q.take (q.length / 2)) (q.drop (q.length / 2))
           else leaf2 (q.headD (0, 0))) := by
      intro q hq hql hlq
      by_cases hlen : q.length > 1
      · rw [if_pos hlen, if_pos hlen]
        exact ih _ _ (take_half_ne_nil hlen) (drop_half_ne_nil hlen)
          (by simp; omega) (fun p hp => hlq p (List.mem_of_mem_take hp))
          (fun p hp => hlq p (List.mem_of_mem_drop hp))
      · rw [if_neg hlen, if_neg hlen]
        match q, hq, hlen with
        | [a], _, _ => exact hlq a (by simp)
        | a :: b :: r, _, hlen => simp at hlen
    simp only [divideAndConquer]
    exact hadd _ _ _ _ (hd p1 h1 (by omega) hl1) (hd p2 h2 (by omega) hl2)

theorem F6_gpm_rel {P} (add : P → P → P) (leaf1 leaf2 : Nat × Nat → P) (R : P → P → Prop)
    (hadd : ∀ a a' b b', R a a' → R b b' → R (add a b) (add a' b')) (idx : List Nat)
    (hne : pairsOf idx ≠ []) (hleaf : ∀ q ∈ pairsOf idx, R (leaf1 q) (leaf2 q)) :
    R (genericProfileMulti add leaf1 idx).1 (genericProfileMulti add leaf2 idx).1 := by
  unfold genericProfileMulti
  dsimp only
  by_cases hlen : (pairsOf idx).length > 1
  · rw [if_pos hlen, if_pos hlen]
    dsimp only
    exact F6_dac_rel add leaf1 leaf2 R hadd (pairsOf idx).length _ _ (take_half_ne_nil hlen)
      (drop_half_ne_nil hlen) (by simp; omega)
      (fun q hq => hleaf q (List.mem_of_mem_take hq))
      (fun q hq => hleaf q (List.mem_of_mem_drop hq))
  · rw [if_neg hlen, if_neg hlen]
    dsimp only
    match hq : pairsOf idx, hne, hlen with
    | [a], _, _ => exact hleaf a (by rw [hq]; simp)
    | a :: b :: r, _, hlen => simp at hlen

/-! ### piecewise-constant functions with common breakpoints, ordered pointwise -/

theorem F6_ssRight_getElem : ∀ (xs : List Q), xs.Pairwise (· < ·) → ∀ (k : Nat) (hk : k < xs.length),
    ssRight xs xs[k] = k + 1
  | [], _, k, hk => by simp at hk
  | x :: xs, hs, 0, _ => by simpa using ssRight_first hs
  | x :: xs, hs, k + 1, hk => by
    have hk' : k < xs.length := by simpa using hk
    have hlt : x < xs[k] := sorted_head_lt hs _ (List.getElem_mem hk')
    rw [List.getElem_cons_succ, ssRight_cons, if_pos hlt.le,
      F6_ssRight_getElem xs (List.pairwise_cons.mp hs).2 k hk']

theorem F6_forall₂_nth {R : Q → Q → Prop} (h0 : R 0 0) {l1 l2 : List Q}
    (h : List.Forall₂ R l1 l2) (k : Nat) : R (nth l1 k) (nth l2 k) := by
  induction h generalizing k with
  | nil => simpa [nth] using h0
  | cons hab _ ih =>
    cases k with
    | zero => simpa using hab
    | succ k => simpa using ih k

/-- `f ≥ f'` pointwise, same breakpoints, both well-formed on `[a, b]` -/
def F6_PwcGe (a b : Q) (f f' : Pwc) : Prop :=
  B5_PwcOn a b f ∧ B5_PwcOn a b f' ∧ f.x = f'.x ∧
  ∀ t, a ≤ t → t < b → (f'.evalR t).getD 0 ≤ (f.evalR t).getD 0

theorem F6_PwcGe.add {a b : Q} {f f' g g' : Pwc} (h : F6_PwcGe a b f f') (h' : F6_PwcGe a b g g') :
    F6_PwcGe a b (f.add g) (f'.add g') := by
  obtain ⟨hf, hf', hx, hv⟩ := h
  obtain ⟨hg, hg', hx', hv'⟩ := h'
  have s := B5_PwcOn.add hf hg
  have s' := B5_PwcOn.add hf' hg'
  refine ⟨s, s', ?_, ?_⟩
  · apply eq_of_strictSorted_of_mem_iff s.1.2.1 s'.1.2.1
    intro x
    rw [Pwc.add_mem_x hf.1 hg.1 (hf.2.1.trans hg.2.1.symm) (hf.2.2.trans hg.2.2.symm),
      Pwc.add_mem_x hf'.1 hg'.1 (hf'.2.1.trans hg'.2.1.symm) (hf'.2.2.trans hg'.2.2.symm), hx, hx']
  · intro t h0 h1
    rw [B5_PwcOn.add_evalR hf hg h0 h1, B5_PwcOn.add_evalR hf' hg' h0 h1]
    exact add_le_add (hv t h0 h1) (hv' t h0 h1)

theorem F6_PwcGe.mulScalar {a b : Q} {f f' : Pwc} (h : F6_PwcGe a b f f') (c : Q) (hc : 0 ≤ c) :
    F6_PwcGe a b (f.mulScalar c) (f'.mulScalar c) := by
  obtain ⟨hf, hf', hx, hv⟩ := h
  refine ⟨⟨Pwc.mulScalar_wf hf.1 c, hf.2.1, hf.2.2⟩, ⟨Pwc.mulScalar_wf hf'.1 c, hf'.2.1, hf'.2.2⟩,
    hx, ?_⟩
  intro t h0 h1
  rw [Pwc.mulScalar_evalR, Pwc.mulScalar_evalR, hf.evalR_some h0 h1, hf'.evalR_some h0 h1]
  simp only [Option.map_some, Option.getD_some]
  exact mul_le_mul_of_nonneg_right (hv t h0 h1) hc

/-- value of piece `k` = right limit at breakpoint `k` -/
theorem F6_pwc_evalR_break {f : Pwc} (hf : f.WF) (k : Nat) (hk : k < f.y.length) :
    f.first ≤ nth f.x k ∧ nth f.x k < f.last ∧ f.evalR (nth f.x k) = some (nth f.y k) := by
  obtain ⟨hl, hs, h2⟩ := hf
  have hkx : k < f.x.length := by omega
  have e : nth f.x k = f.x[k] := by simp [nth, List.getD_eq_getElem?_getD, hkx]
  have hlast : lastD f.x 0 = f.x[f.x.length - 1] := by
    rw [← nth_lastD f.x (by intro h; rw [h] at h2; simp at h2)]
    have : f.x.length - 1 < f.x.length := by omega
    simp [nth, List.getD_eq_getElem?_getD, this]
  have h0 : f.first ≤ f.x[k] := by
    unfold Pwc.first
    match hx : f.x, hs, hkx with
    | [], _, hkx => simp at hkx
    | x0 :: r, hs, hkx =>
      cases k with
      | zero => simp
      | succ k =>
        simp only [List.headD_cons, List.getElem_cons_succ]
        exact (sorted_head_lt hs _ (List.getElem_mem _)).le
  have h1 : f.x[k] < f.last := by
    unfold Pwc.last
    rw [hlast]
    exact List.pairwise_iff_getElem.mp hs k (f.x.length - 1) hkx (by omega) (by omega)
  rw [e]
  refine ⟨h0, h1, ?_⟩
  rw [Pwc.evalR_eq ⟨hl, hs, h2⟩ h0 h1, F6_ssRight_getElem f.x hs k hkx]
  rfl

theorem F6_PwcGe.forall₂ {a b : Q} {f f' : Pwc} (h : F6_PwcGe a b f f') :
    List.Forall₂ (· ≥ ·) f.y f'.y := by
  obtain ⟨hf, hf', hx, hv⟩ := h
  have hlen : f.y.length = f'.y.length := by
    have h1 := hf.1.1
    have h2 := hf'.1.1
    rw [hx] at h1
    omega
  rw [List.forall₂_iff_get]
  refine ⟨hlen, ?_⟩
  intro k hk hk'
  obtain ⟨b0, b1, e⟩ := F6_pwc_evalR_break hf.1 k hk
  obtain ⟨-, -, e'⟩ := F6_pwc_evalR_break hf'.1 k hk'
  rw [hf.2.1] at b0
  rw [hf.2.2] at b1
  have := hv _ b0 b1
  rw [e, hx, e'] at this
  simpa [nth, List.getD_eq_getElem?_getD, hk, hk'] using this

/-- conversely: same breakpoints and entrywise ordered values give pointwise order -/
theorem F6_PwcGe.of_forall₂ {a b : Q} {f f' : Pwc} (hf : B5_PwcOn a b f) (hf' : B5_PwcOn a b f')
    (hx : f.x = f'.x) (hy : List.Forall₂ (· ≥ ·) f.y f'.y) : F6_PwcGe a b f f' := by
  refine ⟨hf, hf', hx, ?_⟩
  intro t h0 h1
  rw [Pwc.evalR_eq hf.1 (by rw [hf.2.1]; exact h0) (by rw [hf.2.2]; exact h1),
    Pwc.evalR_eq hf'.1 (by rw [hf'.2.1]; exact h0) (by rw [hf'.2.2]; exact h1), hx]
  exact F6_forall₂_nth (R := (· ≥ ·)) (le_refl 0) hy _


/-! ### ISI: pair profiles, multivariate profile -/

/-- bivariate ISI profile of two valid trains on common edges: raising MRTS lowers it pointwise
    and keeps its breakpoints -/
theorem F6_isiProfileBi_ge (kw : Kw) (m1 m2 : Q) (a b : Train) (hr : kw.recon = false)
    (ha : ValidTrain a) (hb : ValidTrain b) (hts : b.ts = a.ts) (hte : b.te = a.te)
    (hm : m1 ≤ m2) :
    F6_PwcGe a.ts a.te (isiProfileBi { kw with mrts := m1 } a b)
      (isiProfileBi { kw with mrts := m2 } a b) := by
  have hva := nonEmpty_valid a ha
  have hvb := nonEmpty_valid b hb
  rw [hts, hte] at hvb
  apply F6_PwcGe.of_forall₂ (B5_isiProfileBi_on { kw with mrts := m1 } a b hr ha hb hts hte)
    (B5_isiProfileBi_on { kw with mrts := m2 } a b hr ha hb hts hte)
  · simp only [isiProfileBi, prepBi, hr, Bool.false_eq_true, if_false]
    rw [C5_isiProfile_breaks_indep_mrts _ _ _ _ m1, C5_isiProfile_breaks_indep_mrts _ _ _ _ m2]
  · simp only [isiProfileBi, prepBi, hr, Bool.false_eq_true, if_false]
    exact C5_isiProfile_antitone_mrts _ _ _ _ m1 m2 ha.1 hva hvb hm

theorem F6_isiProfileMulti_ge (kw : Kw) (m1 m2 : Q) (L : List Train) (ts te : Q)
    (hv : B5_ValidList ts te L) (h2 : 2 ≤ L.length) (hm : m1 ≤ m2) :
    F6_PwcGe ts te (isiProfileMulti { kw with mrts := m1 } none L)
      (isiProfileMulti { kw with mrts := m2 } none L) := by
  unfold isiProfileMulti
  simp only [B5_prep_valid _ ts te L hv (B5_ne_nil_of_two h2), resolveIdx, genericProfileMulti_snd]
  apply F6_PwcGe.mulScalar _ _ (by positivity)
  apply F6_gpm_rel Pwc.add _ _ (F6_PwcGe ts te) (fun _ _ _ _ h h' => F6_PwcGe.add h h')
    _ (B5_pairs_range_ne_nil h2)
  intro p hp
  obtain ⟨h1, h2'⟩ := B5_pair_mem L p hp
  obtain ⟨v1, s1, e1⟩ := hv _ h1
  obtain ⟨v2, s2, e2⟩ := hv _ h2'
  have := F6_isiProfileBi_ge kw.noRecon m1 m2 _ _ rfl v1 v2 (s2.trans s1.symm) (e2.trans e1.symm) hm
  rw [s1, e1] at this
  exact this

/-- **C15, multivariate ISI profile**: for valid trains on common edges (any `kw`, reconciling or
    not), raising MRTS keeps the breakpoints of the multivariate ISI profile and never raises any
    of its values — entry by entry (`Forall₂`: equal lengths included) and at every time. -/
theorem F6_isi_multi_profile_antitone (kw : Kw) (m1 m2 : Q) (L : List Train) (ts te : Q)
    (hv : B5_ValidList ts te L) (h2 : 2 ≤ L.length) (hm : m1 ≤ m2) :
    (isiProfileMulti { kw with mrts := m1 } none L).x = (isiProfileMulti { kw with mrts := m2 } none L).x ∧
    List.Forall₂ (· ≥ ·) (isiProfileMulti { kw with mrts := m1 } none L).y
      (isiProfileMulti { kw with mrts := m2 } none L).y ∧
    ∀ t, ts ≤ t → t < te → ∃ v1 v2,
      (isiProfileMulti { kw with mrts := m1 } none L).evalR t = some v1 ∧
      (isiProfileMulti { kw with mrts := m2 } none L).evalR t = some v2 ∧ v2 ≤ v1 := by
  have h := F6_isiProfileMulti_ge kw m1 m2 L ts te hv h2 hm
  refine ⟨h.2.2.1, h.forall₂, ?_⟩
  intro t h0 h1
  exact ⟨_, _, h.1.evalR_some h0 h1, h.2.1.evalR_some h0 h1, h.2.2.2 t h0 h1⟩

example : B5_ValidList 0 6 B5_exV ∧ 2 ≤ B5_exV.length ∧ (1 : Q) ≤ 3 :=
  ⟨B5_exV_valid, by decide, by norm_num⟩


/-! ### distances: optional results (`none` = `ValueError` for an interval outside the recording) -/

/-- order on optional results: both fail, or both succeed and the second is not larger -/
def F6_OptGe (o1 o2 : Option Q) : Prop :=
  (o1 = none ∧ o2 = none) ∨ ∃ d1 d2, o1 = some d1 ∧ o2 = some d2 ∧ d2 ≤ d1

theorem F6_OptGe.le {o1 o2 : Option Q} (h : F6_OptGe o1 o2) {d1 d2 : Q} (h1 : o1 = some d1)
    (h2 : o2 = some d2) : d2 ≤ d1 := by
  rcases h with ⟨e1, _⟩ | ⟨c1, c2, e1, e2, hle⟩
  · rw [e1] at h1; cases h1
  · rw [e1] at h1; rw [e2] at h2; cases h1; cases h2; exact hle

theorem F6_OptGe.isSome_iff {o1 o2 : Option Q} (h : F6_OptGe o1 o2) : o1 = none ↔ o2 = none := by
  rcases h with ⟨e1, e2⟩ | ⟨c1, c2, e1, e2, _⟩
  · simp [e1, e2]
  · simp [e1, e2]

theorem F6_OptGe.map_div {o1 o2 : Option Q} (h : F6_OptGe o1 o2) (c : Q) (hc : 0 ≤ c) :
    F6_OptGe (o1.map (· / c)) (o2.map (· / c)) := by
  rcases h with ⟨e1, e2⟩ | ⟨c1, c2, e1, e2, hle⟩
  · left; simp [e1, e2]
  · right; exact ⟨_, _, by rw [e1]; rfl, by rw [e2]; rfl, div_le_div_of_nonneg_right hle hc⟩

theorem F6_OptGe.map_mul {o1 o2 : Option Q} (h : F6_OptGe o1 o2) (c : Q) (hc : 0 ≤ c) :
    F6_OptGe (o1.map (c * ·)) (o2.map (c * ·)) := by
  rcases h with ⟨e1, e2⟩ | ⟨c1, c2, e1, e2, hle⟩
  · left; simp [e1, e2]
  · right; exact ⟨_, _, by rw [e1]; rfl, by rw [e2]; rfl, mul_le_mul_of_nonneg_left hle hc⟩

theorem F6_sumOpt_ge {l1 l2 : List (Option Q)} (h : List.Forall₂ F6_OptGe l1 l2) :
    F6_OptGe (sumOpt l1) (sumOpt l2) := by
  induction h with
  | nil => right; exact ⟨0, 0, rfl, rfl, le_refl _⟩
  | @cons o1 o2 r1 r2 ho _ ih =>
    rcases ho with ⟨e1, e2⟩ | ⟨c1, c2, e1, e2, hle⟩
    · left; rw [e1, e2]; exact ⟨rfl, rfl⟩
    · rw [e1, e2]
      rcases ih with ⟨f1, f2⟩ | ⟨s1, s2, f1, f2, hs⟩
      · left; simp [sumOpt, f1, f2]
      · right; exact ⟨c1 + s1, c2 + s2, by simp [sumOpt, f1], by simp [sumOpt, f2], add_le_add hle hs⟩

theorem F6_zip_sum_mono (w : Q → Q → Q) (hw : ∀ l r, 0 ≤ w l r) {ys ys' : List Q}
    (h : List.Forall₂ (· ≥ ·) ys ys') : ∀ (xs xt : List Q),
    qsum ((xs.zip (xt.zip ys')).map fun p => w p.1 p.2.1 * p.2.2)
      ≤ qsum ((xs.zip (xt.zip ys)).map fun p => w p.1 p.2.1 * p.2.2) := by
  induction h with
  | nil => intro xs xt; simp
  | @cons y y' r r' hy _ ih =>
    intro xs xt
    cases xs with
    | nil => simp
    | cons x xs =>
      cases xt with
      | nil => simp
      | cons x' xt =>
        simp only [List.zip_cons_cons, List.map_cons, qsum]
        exact add_le_add (mul_le_mul_of_nonneg_left hy (hw _ _)) (ih xs xt)

theorem F6_riemann_mono {f f' : Pwc} (hx : f.x = f'.x) (hy : List.Forall₂ (· ≥ ·) f.y f'.y)
    (u v : Q) : f'.riemann u v ≤ f.riemann u v := by
  unfold Pwc.riemann Pwc.pieces
  rw [← hx]
  exact F6_zip_sum_mono (fun l r => clipLen u v l r) (fun _ _ => le_max_left _ _) hy _ _

/-- the average (any `interval` keyword) of two pointwise ordered functions is ordered -/
theorem F6_pwcAvrgKw_ge {a b : Q} {f f' : Pwc} (h : F6_PwcGe a b f f') (iv : Option (Q × Q)) :
    F6_OptGe (pwcAvrgKw f iv) (pwcAvrgKw f' iv) := by
  have hy := h.forall₂
  obtain ⟨hf, hf', hx, -⟩ := h
  have hab : a < b := by
    have := Pwc.first_lt_last hf.1
    rwa [hf.2.1, hf.2.2] at this
  cases iv with
  | none =>
    right
    refine ⟨_, _, rfl, rfl, ?_⟩
    rw [Pwc.avrgAll_eq hf.1, Pwc.avrgAll_eq hf'.1, hf.2.1, hf.2.2, hf'.2.1, hf'.2.2]
    exact div_le_div_of_nonneg_right (F6_riemann_mono hx hy a b) (by linarith)
  | some uv =>
    obtain ⟨u, v⟩ := uv
    show F6_OptGe (f.avrg u v) (f'.avrg u v)
    by_cases hn : u > v ∨ u < a ∨ v > b
    · left
      have e1 : f.integral u v = none := by
        rw [Pwc.integral_eq_none_iff, hf.2.1, hf.2.2]; exact hn
      have e2 : f'.integral u v = none := by
        rw [Pwc.integral_eq_none_iff, hf'.2.1, hf'.2.2]; exact hn
      simp [Pwc.avrg, e1, e2]
    · simp only [not_or, not_lt] at hn
      obtain ⟨huv, hau, hvb⟩ := hn
      right
      rcases lt_or_eq_of_le huv with hlt | heq
      · refine ⟨_, _, Pwc.avrg_eq hf.1 (by rw [hf.2.1]; exact hau) hlt (by rw [hf.2.2]; exact hvb),
          Pwc.avrg_eq hf'.1 (by rw [hf'.2.1]; exact hau) hlt (by rw [hf'.2.2]; exact hvb), ?_⟩
        exact div_le_div_of_nonneg_right (F6_riemann_mono hx hy u v) (by linarith)
      · subst heq
        have n1 : f.integral u u ≠ none := by
          rw [Ne, Pwc.integral_eq_none_iff, hf.2.1, hf.2.2]
          simp only [not_or, not_lt, gt_iff_lt]
          exact ⟨le_refl _, hau, hvb⟩
        have n2 : f'.integral u u ≠ none := by
          rw [Ne, Pwc.integral_eq_none_iff, hf'.2.1, hf'.2.2]
          simp only [not_or, not_lt, gt_iff_lt]
          exact ⟨le_refl _, hau, hvb⟩
        obtain ⟨w1, e1⟩ := Option.ne_none_iff_exists'.mp n1
        obtain ⟨w2, e2⟩ := Option.ne_none_iff_exists'.mp n2
        refine ⟨0, 0, by simp [Pwc.avrg, e1], by simp [Pwc.avrg, e2], le_refl _⟩

/-- **C15, bivariate ISI distance** (any `interval`): raising MRTS never raises the ISI distance
    of two valid trains on common edges; both calls fail for the same intervals -/
theorem F6_isi_distance_antitone (kw : Kw) (m1 m2 : Q) (a b : Train) (hr : kw.recon = false)
    (ha : ValidTrain a) (hb : ValidTrain b) (hts : b.ts = a.ts) (hte : b.te = a.te)
    (hm : m1 ≤ m2) :
    F6_OptGe (isiDistanceBi { kw with mrts := m1 } a b) (isiDistanceBi { kw with mrts := m2 } a b) :=
  F6_pwcAvrgKw_ge (F6_isiProfileBi_ge kw m1 m2 a b hr ha hb hts hte hm) kw.interval

theorem F6_isi_pair_distance_ge (kw : Kw) (m1 m2 : Q) (L : List Train) (ts te : Q)
    (hv : B5_ValidList ts te L) (hm : m1 ≤ m2) (i j : Nat) (hi : i < L.length) (hj : j < L.length) :
    F6_OptGe (isiDistanceBi ({ kw with mrts := m1 } : Kw).noRecon (tr L i) (tr L j))
      (isiDistanceBi ({ kw with mrts := m2 } : Kw).noRecon (tr L i) (tr L j)) := by
  obtain ⟨v1, s1, e1⟩ := hv _ (B5_tr_mem L i hi)
  obtain ⟨v2, s2, e2⟩ := hv _ (B5_tr_mem L j hj)
  exact F6_isi_distance_antitone kw.noRecon m1 m2 _ _ rfl v1 v2 (s2.trans s1.symm)
    (e2.trans e1.symm) hm

/-- **C15, multivariate ISI distance** (any `kw`, any `interval`): raising MRTS never raises
    `isi_distance_multi` of valid trains on common edges -/
theorem F6_isi_distance_multi_antitone (kw : Kw) (m1 m2 : Q) (L : List Train) (ts te : Q)
    (hv : B5_ValidList ts te L) (hne : L ≠ []) (hm : m1 ≤ m2) :
    F6_OptGe (isiDistanceMulti { kw with mrts := m1 } none L)
      (isiDistanceMulti { kw with mrts := m2 } none L) := by
  unfold isiDistanceMulti genericDistanceMulti
  simp only [B5_prep_valid _ ts te L hv hne, resolveIdx]
  apply F6_OptGe.map_div _ _ (by positivity)
  apply F6_sumOpt_ge
  rw [List.forall₂_map_left_iff, List.forall₂_map_right_iff, List.forall₂_same]
  intro p hp
  have := mem_posPairs hp
  exact F6_isi_pair_distance_ge kw m1 m2 L ts te hv hm p.1 p.2 this.1 this.2

/-- … in the usual form: if both calls return a value, the one for the larger MRTS is not larger -/
theorem F6_isi_distance_multi_antitone' (kw : Kw) (m1 m2 : Q) (L : List Train) (ts te : Q)
    (hv : B5_ValidList ts te L) (hne : L ≠ []) (hm : m1 ≤ m2) (d1 d2 : Q)
    (h1 : isiDistanceMulti { kw with mrts := m1 } none L = some d1)
    (h2 : isiDistanceMulti { kw with mrts := m2 } none L = some d2) : d2 ≤ d1 :=
  (F6_isi_distance_multi_antitone kw m1 m2 L ts te hv hne hm).le h1 h2

example : B5_ValidList 0 6 B5_exV ∧ B5_exV ≠ [] := ⟨B5_exV_valid, by decide⟩

/-- **C15, ISI distance matrix**: every entry is antitone in MRTS -/
theorem F6_isi_distance_matrix_antitone (kw : Kw) (m1 m2 : Q) (L : List Train) (ts te : Q)
    (hv : B5_ValidList ts te L) (hne : L ≠ []) (hm : m1 ≤ m2) (M1 M2 : List (List Q))
    (h1 : isiDistanceMatrix { kw with mrts := m1 } none L = some M1)
    (h2 : isiDistanceMatrix { kw with mrts := m2 } none L = some M2)
    (i j : Nat) (hi : i < L.length) (hj : j < L.length) :
    (M2.getD i []).getD j 0 ≤ (M1.getD i []).getD j 0 := by
  unfold isiDistanceMatrix at h1 h2
  simp only [B5_prep_valid _ ts te L hv hne, resolveIdx] at h1 h2
  have e1 := genericDistanceMatrix_entry _ _ _ _ _ _ h1 i j (by simpa using hi) (by simpa using hj)
  have e2 := genericDistanceMatrix_entry _ _ _ _ _ _ h2 i j (by simpa using hi) (by simpa using hj)
  have gi : (List.range L.length).getD i 0 = i := getD_range _ _ hi
  have gj : (List.range L.length).getD j 0 = j := getD_range _ _ hj
  refine F6_OptGe.le ?_ e1 e2
  unfold matEntry
  rw [gi, gj]
  by_cases hij : i = j
  · rw [if_pos hij, if_pos hij]; right; exact ⟨0, 0, rfl, rfl, le_refl _⟩
  · rw [if_neg hij, if_neg hij]
    by_cases hlt : i < j
    · rw [if_pos hlt, if_pos hlt]
      exact F6_isi_pair_distance_ge kw m1 m2 L ts te hv hm i j hi hj
    · rw [if_neg hlt, if_neg hlt]
      exact (F6_isi_pair_distance_ge kw m1 m2 L ts te hv hm j i hj hi).map_mul 1 (by norm_num)


/-! ### piecewise-linear functions with common breakpoints, ordered pointwise (both limits) -/

theorem F6_piece_at_mono {xl xr yl yr yl' yr' t : Q} (h0 : xl ≤ t) (h1 : t ≤ xr) (hlt : xl < xr)
    (hl : yl' ≤ yl) (hr : yr' ≤ yr) :
    (Piece.mk xl xr yl' yr').at t ≤ (Piece.mk xl xr yl yr).at t := by
  simp only [Piece.at]
  have hd : 0 < xr - xl := by linarith
  rw [mul_div_assoc, mul_div_assoc]
  have l0 : 0 ≤ (t - xl) / (xr - xl) := div_nonneg (by linarith) hd.le
  have l1 : (t - xl) / (xr - xl) ≤ 1 := (div_le_one hd).mpr (by linarith)
  nlinarith [mul_nonneg (sub_nonneg.2 hl) (sub_nonneg.2 l1), mul_nonneg (sub_nonneg.2 hr) l0]

theorem F6_ssLeft_getElem : ∀ (xs : List Q), xs.Pairwise (· < ·) → ∀ (k : Nat) (hk : k < xs.length),
    ssLeft xs xs[k] = k
  | [], _, k, hk => by simp at hk
  | x :: xs, hs, 0, _ => by
    rw [List.getElem_cons_zero, ssLeft_cons, if_neg (lt_irrefl x)]
    exact ssLeft_eq_zero (fun y hy => (sorted_head_lt hs y hy).le)
  | x :: xs, hs, k + 1, hk => by
    have hk' : k < xs.length := by simpa using hk
    have hlt : x < xs[k] := sorted_head_lt hs _ (List.getElem_mem hk')
    rw [List.getElem_cons_succ, ssLeft_cons, if_pos hlt,
      F6_ssLeft_getElem xs (List.pairwise_cons.mp hs).2 k hk']

/-- `f ≥ f'` pointwise (right limits on `[a,b)`, left limits on `(a,b]`), same breakpoints, both
    well-formed on `[a, b]` -/
def F6_PwlGe (a b : Q) (f f' : Pwl) : Prop :=
  B5_PwlOn a b f ∧ B5_PwlOn a b f' ∧ f.x = f'.x ∧
  (∀ t, a ≤ t → t < b → (f'.evalR t).getD 0 ≤ (f.evalR t).getD 0) ∧
  (∀ t, a < t → t ≤ b → (f'.evalL t).getD 0 ≤ (f.evalL t).getD 0)

theorem F6_PwlOn_evalL_some {a b : Q} {f : Pwl} (hf : B5_PwlOn a b f) {t : Q} (h0 : a < t)
    (h1 : t ≤ b) : f.evalL t = some ((f.evalL t).getD 0) := by
  rw [(Pwl.evalL_eq hf.1 (by rw [hf.2.1]; exact h0) (by rw [hf.2.2]; exact h1)).1]
  rfl

theorem F6_PwlOn_add_evalL {a b : Q} {f g : Pwl} (hf : B5_PwlOn a b f) (hg : B5_PwlOn a b g)
    {t : Q} (h0 : a < t) (h1 : t ≤ b) :
    ((f.add g).evalL t).getD 0 = (f.evalL t).getD 0 + (g.evalL t).getD 0 := by
  obtain ⟨v, w, hv, hw, hvw⟩ := Pwl.add_evalL hf.1 hg.1 (hf.2.1.trans hg.2.1.symm)
    (hf.2.2.trans hg.2.2.symm) t (by rw [hf.2.1]; exact h0) (by rw [hf.2.2]; exact h1)
  rw [hv, hw, hvw]
  rfl

theorem F6_PwlGe.add {a b : Q} {f f' g g' : Pwl} (h : F6_PwlGe a b f f') (h' : F6_PwlGe a b g g') :
    F6_PwlGe a b (f.add g) (f'.add g') := by
  obtain ⟨hf, hf', hx, hv, hw⟩ := h
  obtain ⟨hg, hg', hx', hv', hw'⟩ := h'
  have s := B5_PwlOn.add hf hg
  have s' := B5_PwlOn.add hf' hg'
  refine ⟨s, s', ?_, ?_, ?_⟩
  · apply eq_of_strictSorted_of_mem_iff s.1.2.2.1 s'.1.2.2.1
    intro x
    rw [Pwl.add_mem_x hf.1 hg.1 (hf.2.1.trans hg.2.1.symm) (hf.2.2.trans hg.2.2.symm),
      Pwl.add_mem_x hf'.1 hg'.1 (hf'.2.1.trans hg'.2.1.symm) (hf'.2.2.trans hg'.2.2.symm), hx, hx']
  · intro t h0 h1
    rw [(B5_PwlOn.add_evalR hf hg h0 h1).2, (B5_PwlOn.add_evalR hf' hg' h0 h1).2]
    exact add_le_add (hv t h0 h1) (hv' t h0 h1)
  · intro t h0 h1
    rw [F6_PwlOn_add_evalL hf hg h0 h1, F6_PwlOn_add_evalL hf' hg' h0 h1]
    exact add_le_add (hw t h0 h1) (hw' t h0 h1)

theorem F6_PwlGe.mulScalar {a b : Q} {f f' : Pwl} (h : F6_PwlGe a b f f') (c : Q) (hc : 0 ≤ c) :
    F6_PwlGe a b (f.mulScalar c) (f'.mulScalar c) := by
  obtain ⟨hf, hf', hx, hv, hw⟩ := h
  refine ⟨⟨Pwl.mulScalar_wf hf.1 c, hf.2.1, hf.2.2⟩, ⟨Pwl.mulScalar_wf hf'.1 c, hf'.2.1, hf'.2.2⟩,
    hx, ?_, ?_⟩
  · intro t h0 h1
    rw [Pwl.mulScalar_evalR, Pwl.mulScalar_evalR, hf.evalR_some h0 h1, hf'.evalR_some h0 h1]
    simp only [Option.map_some, Option.getD_some]
    exact mul_le_mul_of_nonneg_right (hv t h0 h1) hc
  · intro t h0 h1
    rw [Pwl.mulScalar_evalL, Pwl.mulScalar_evalL, F6_PwlOn_evalL_some hf h0 h1,
      F6_PwlOn_evalL_some hf' h0 h1]
    simp only [Option.map_some, Option.getD_some]
    exact mul_le_mul_of_nonneg_right (hw t h0 h1) hc

/-- left value of piece `k` = right limit at breakpoint `k`; right value of piece `k` = left limit
    at breakpoint `k+1` -/
theorem F6_pwl_eval_break {f : Pwl} (hf : f.WF) (k : Nat) (hk : k < f.y1.length) :
    (f.first ≤ nth f.x k ∧ nth f.x k < f.last ∧ f.evalR (nth f.x k) = some (nth f.y1 k)) ∧
    (f.first < nth f.x (k + 1) ∧ nth f.x (k + 1) ≤ f.last ∧
      f.evalL (nth f.x (k + 1)) = some (nth f.y2 k)) := by
  obtain ⟨hl, hl2, hs, h2⟩ := hf
  have hkx : k < f.x.length := by omega
  have hkx1 : k + 1 < f.x.length := by omega
  have e : nth f.x k = f.x[k] := by simp [nth, List.getD_eq_getElem?_getD, hkx]
  have e1 : nth f.x (k + 1) = f.x[k + 1] := by simp [nth, List.getD_eq_getElem?_getD, hkx1]
  have hlast : lastD f.x 0 = f.x[f.x.length - 1] := by
    rw [← nth_lastD f.x (by intro h; rw [h] at h2; simp at h2)]
    have : f.x.length - 1 < f.x.length := by omega
    simp [nth, List.getD_eq_getElem?_getD, this]
  have hfirst : f.first = f.x[0] := by
    unfold Pwl.first
    rw [List.headD_eq_head?_getD, List.head?_eq_getElem?, List.getElem?_eq_getElem (by omega)]
    rfl
  have hpw := List.pairwise_iff_getElem.mp hs
  have hkk : f.x[k] < f.x[k + 1] := hpw k (k + 1) hkx hkx1 (by omega)
  have h0 : f.first ≤ f.x[k] := by
    rw [hfirst]
    rcases Nat.eq_zero_or_pos k with rfl | hp
    · exact le_refl _
    · exact (hpw 0 k (by omega) hkx hp).le
  have h1 : f.x[k + 1] ≤ f.last := by
    unfold Pwl.last
    rw [hlast]
    rcases Nat.lt_or_ge (k + 1) (f.x.length - 1) with hlt | hge
    · exact (hpw (k + 1) (f.x.length - 1) hkx1 (by omega) hlt).le
    · have : k + 1 = f.x.length - 1 := by omega
      simp only [this]; exact le_refl _
  rw [e, e1]
  refine ⟨⟨h0, lt_of_lt_of_le hkk h1, ?_⟩, ⟨lt_of_le_of_lt h0 hkk, h1, ?_⟩⟩
  · rw [(Pwl.evalR_eq ⟨hl, hl2, hs, h2⟩ h0 (lt_of_lt_of_le hkk h1)).1,
      F6_ssRight_getElem f.x hs k hkx]
    show some ((Piece.mk (nth f.x k) (nth f.x (k + 1)) (nth f.y1 k) (nth f.y2 k)).at f.x[k]) = _
    rw [← e, Piece.at_xl]
  · rw [(Pwl.evalL_eq ⟨hl, hl2, hs, h2⟩ (lt_of_le_of_lt h0 hkk) h1).1,
      F6_ssLeft_getElem f.x hs (k + 1) hkx1]
    show some ((Piece.mk (nth f.x k) (nth f.x (k + 1)) (nth f.y1 k) (nth f.y2 k)).at f.x[k + 1]) = _
    rw [← e1, Piece.at_xr _ (by show nth f.x k < nth f.x (k + 1); rw [e, e1]; exact hkk)]

theorem F6_PwlGe.forall₂ {a b : Q} {f f' : Pwl} (h : F6_PwlGe a b f f') :
    List.Forall₂ (· ≥ ·) f.y1 f'.y1 ∧ List.Forall₂ (· ≥ ·) f.y2 f'.y2 := by
  obtain ⟨hf, hf', hx, hv, hw⟩ := h
  have a1 := hf.1.1
  have a2 := hf.1.2.1
  have a1' := hf'.1.1
  have a2' := hf'.1.2.1
  rw [hx] at a1 a2
  have hlen1 : f.y1.length = f'.y1.length := by omega
  have hlen2 : f.y2.length = f'.y2.length := by omega
  constructor
  · rw [List.forall₂_iff_get]
    refine ⟨hlen1, ?_⟩
    intro k hk hk'
    obtain ⟨⟨b0, b1, e⟩, -⟩ := F6_pwl_eval_break hf.1 k hk
    obtain ⟨⟨-, -, e'⟩, -⟩ := F6_pwl_eval_break hf'.1 k hk'
    rw [hf.2.1] at b0
    rw [hf.2.2] at b1
    have := hv _ b0 b1
    rw [e, hx, e'] at this
    simpa [nth, List.getD_eq_getElem?_getD, hk, hk'] using this
  · rw [List.forall₂_iff_get]
    refine ⟨hlen2, ?_⟩
    intro k hk hk'
    obtain ⟨-, b0, b1, e⟩ := F6_pwl_eval_break hf.1 k (by omega)
    obtain ⟨-, -, -, e'⟩ := F6_pwl_eval_break hf'.1 k (by omega)
    rw [hf.2.1] at b0
    rw [hf.2.2] at b1
    have := hw _ b0 b1
    rw [e, hx, e'] at this
    simpa [nth, List.getD_eq_getElem?_getD, hk, hk'] using this

theorem F6_PwlGe.of_forall₂ {a b : Q} {f f' : Pwl} (hf : B5_PwlOn a b f) (hf' : B5_PwlOn a b f')
    (hx : f.x = f'.x) (hy1 : List.Forall₂ (· ≥ ·) f.y1 f'.y1)
    (hy2 : List.Forall₂ (· ≥ ·) f.y2 f'.y2) : F6_PwlGe a b f f' := by
  refine ⟨hf, hf', hx, ?_, ?_⟩
  · intro t h0 h1
    obtain ⟨e, p0, p1⟩ := Pwl.evalR_eq hf.1 (t := t) (by rw [hf.2.1]; exact h0)
      (by rw [hf.2.2]; exact h1)
    obtain ⟨e', -, -⟩ := Pwl.evalR_eq hf'.1 (t := t) (by rw [hf'.2.1]; exact h0)
      (by rw [hf'.2.2]; exact h1)
    rw [e, e']
    simp only [Option.getD_some, Pwl.pieceAt] at p0 p1 ⊢
    rw [← hx]
    exact F6_piece_at_mono p0 p1.le (lt_of_le_of_lt p0 p1)
      (F6_forall₂_nth (R := (· ≥ ·)) (le_refl 0) hy1 _)
      (F6_forall₂_nth (R := (· ≥ ·)) (le_refl 0) hy2 _)
  · intro t h0 h1
    obtain ⟨e, p0, p1⟩ := Pwl.evalL_eq hf.1 (t := t) (by rw [hf.2.1]; exact h0)
      (by rw [hf.2.2]; exact h1)
    obtain ⟨e', -, -⟩ := Pwl.evalL_eq hf'.1 (t := t) (by rw [hf'.2.1]; exact h0)
      (by rw [hf'.2.2]; exact h1)
    rw [e, e']
    simp only [Option.getD_some, Pwl.pieceAt] at p0 p1 ⊢
    rw [← hx]
    exact F6_piece_at_mono p0.le p1 (lt_of_lt_of_le p0 p1)
      (F6_forall₂_nth (R := (· ≥ ·)) (le_refl 0) hy1 _)
      (F6_forall₂_nth (R := (· ≥ ·)) (le_refl 0) hy2 _)

/-! ### SPIKE: pair profiles, multivariate profile (outside the F9 class) -/

theorem F6_not_oneSpikeOnStart (a : Train) (ha : ValidTrain a) (hn : a.spikes ≠ [a.ts]) :
    ¬ OneSpikeOnStart a.nonEmpty a.ts := by
  unfold OneSpikeOnStart Train.nonEmpty
  by_cases he : a.spikes.isEmpty
  · simp [he, ha.1]
  · simpa [he] using hn

theorem F6_spikeProfileBi_ge (kw : Kw) (m1 m2 : Q) (a b : Train) (hr : kw.recon = false)
    (ha : ValidTrain a) (hb : ValidTrain b) (hts : b.ts = a.ts) (hte : b.te = a.te)
    (hna : a.spikes ≠ [a.ts]) (hnb : b.spikes ≠ [a.ts]) (hm : m1 ≤ m2) :
    F6_PwlGe a.ts a.te (spikeProfileBi { kw with mrts := m1 } a b)
      (spikeProfileBi { kw with mrts := m2 } a b) := by
  have hva := nonEmpty_valid a ha
  have hvb := nonEmpty_valid b hb
  have hn1 := F6_not_oneSpikeOnStart a ha hna
  have hn2 := F6_not_oneSpikeOnStart b hb (by rw [hts]; exact hnb)
  rw [hts, hte] at hvb
  rw [hts] at hn2
  have h := C5_spikeProfile_antitone_mrts _ _ _ _ m1 m2 kw.ri hva hvb ha.1 hn1 hn2 hm
  apply F6_PwlGe.of_forall₂ (C2_spikeProfileBi_on { kw with mrts := m1 } a b hr ha hb hts hte)
    (C2_spikeProfileBi_on { kw with mrts := m2 } a b hr ha hb hts hte)
  · rw [C2_spikeProfileBi_x { kw with mrts := m1 } a b hr,
      C2_spikeProfileBi_x { kw with mrts := m2 } a b hr]
  · simp only [spikeProfileBi, prepBi, hr, Bool.false_eq_true, if_false]
    exact h.1
  · simp only [spikeProfileBi, prepBi, hr, Bool.false_eq_true, if_false]
    exact h.2

theorem F6_spikeProfileMulti_ge (kw : Kw) (m1 m2 : Q) (L : List Train) (ts te : Q)
    (hv : B5_ValidList ts te L) (h2 : 2 ≤ L.length) (hF9 : ∀ a ∈ L, a.spikes ≠ [ts])
    (hm : m1 ≤ m2) :
    F6_PwlGe ts te (spikeProfileMulti { kw with mrts := m1 } none L)
      (spikeProfileMulti { kw with mrts := m2 } none L) := by
  unfold spikeProfileMulti
  simp only [B5_prep_valid _ ts te L hv (B5_ne_nil_of_two h2), resolveIdx, genericProfileMulti_snd]
  apply F6_PwlGe.mulScalar _ _ (by positivity)
  apply F6_gpm_rel Pwl.add _ _ (F6_PwlGe ts te) (fun _ _ _ _ h h' => F6_PwlGe.add h h')
    _ (B5_pairs_range_ne_nil h2)
  intro p hp
  obtain ⟨h1, h2'⟩ := B5_pair_mem L p hp
  obtain ⟨v1, s1, e1⟩ := hv _ h1
  obtain ⟨v2, s2, e2⟩ := hv _ h2'
  have := F6_spikeProfileBi_ge kw.noRecon m1 m2 _ _ rfl v1 v2 (s2.trans s1.symm) (e2.trans e1.symm)
    (by rw [s1]; exact hF9 _ h1) (by rw [s1]; exact hF9 _ h2') hm
  rw [s1, e1] at this
  exact this

/-- **C15, multivariate SPIKE profile** (plain and rate-independent; outside the F9 class: no train
    consists of exactly one spike on `t_start`): for valid trains on common edges raising MRTS keeps
    the breakpoints and never raises a value — both value arrays entry by entry, and both one-sided
    limits at every time. -/
theorem F6_spike_multi_profile_antitone (kw : Kw) (m1 m2 : Q) (L : List Train) (ts te : Q)
    (hv : B5_ValidList ts te L) (h2 : 2 ≤ L.length) (hF9 : ∀ a ∈ L, a.spikes ≠ [ts])
    (hm : m1 ≤ m2) :
    (spikeProfileMulti { kw with mrts := m1 } none L).x
      = (spikeProfileMulti { kw with mrts := m2 } none L).x ∧
    List.Forall₂ (· ≥ ·) (spikeProfileMulti { kw with mrts := m1 } none L).y1
      (spikeProfileMulti { kw with mrts := m2 } none L).y1 ∧
    List.Forall₂ (· ≥ ·) (spikeProfileMulti { kw with mrts := m1 } none L).y2
      (spikeProfileMulti { kw with mrts := m2 } none L).y2 ∧
    (∀ t, ts ≤ t → t < te → ∃ v1 v2,
      (spikeProfileMulti { kw with mrts := m1 } none L).evalR t = some v1 ∧
      (spikeProfileMulti { kw with mrts := m2 } none L).evalR t = some v2 ∧ v2 ≤ v1) ∧
    (∀ t, ts < t → t ≤ te → ∃ v1 v2,
      (spikeProfileMulti { kw with mrts := m1 } none L).evalL t = some v1 ∧
      (spikeProfileMulti { kw with mrts := m2 } none L).evalL t = some v2 ∧ v2 ≤ v1) := by
  have h := F6_spikeProfileMulti_ge kw m1 m2 L ts te hv h2 hF9 hm
  refine ⟨h.2.2.1, h.forall₂.1, h.forall₂.2, ?_, ?_⟩
  · intro t h0 h1
    exact ⟨_, _, h.1.evalR_some h0 h1, h.2.1.evalR_some h0 h1, h.2.2.2.1 t h0 h1⟩
  · intro t h0 h1
    exact ⟨_, _, F6_PwlOn_evalL_some h.1 h0 h1, F6_PwlOn_evalL_some h.2.1 h0 h1, h.2.2.2.2 t h0 h1⟩

example : B5_ValidList 0 6 B5_exV ∧ 2 ≤ B5_exV.length ∧ (∀ a ∈ B5_exV, a.spikes ≠ [0]) :=
  ⟨B5_exV_valid, by decide, by decide⟩

/-! ### SPIKE distances -/

theorem F6_clipInt_mono {xl xr yl yr yl' yr' : Q} (hl : yl' ≤ yl) (hr : yr' ≤ yr) (u v : Q) :
    (Piece.mk xl xr yl' yr').clipInt u v ≤ (Piece.mk xl xr yl yr).clipInt u v := by
  unfold Piece.clipInt
  simp only
  split_ifs with h
  · have h1 : xl ≤ max u xl := le_max_right _ _
    have h2 : min v xr ≤ xr := min_le_right _ _
    have hlt : xl < xr := lt_of_le_of_lt h1 (lt_of_lt_of_le h h2)
    have m1 := F6_piece_at_mono (t := max u xl) h1 (le_trans h.le h2) hlt hl hr
    have m2 := F6_piece_at_mono (t := min v xr) (le_trans h1 h.le) h2 hlt hl hr
    apply mul_le_mul_of_nonneg_left _ (by linarith)
    linarith
  · exact le_refl _

theorem F6_pwl_sum_mono (g : Piece → Q)
    (hg : ∀ xl xr yl yr yl' yr', yl' ≤ yl → yr' ≤ yr → g ⟨xl, xr, yl', yr'⟩ ≤ g ⟨xl, xr, yl, yr⟩)
    {y1 y1' : List Q} (h1 : List.Forall₂ (· ≥ ·) y1 y1') :
    ∀ {y2 y2' : List Q}, List.Forall₂ (· ≥ ·) y2 y2' → ∀ (xs xt : List Q),
    qsum (((xs.zip (xt.zip (y1'.zip y2'))).map fun p => (⟨p.1, p.2.1, p.2.2.1, p.2.2.2⟩ : Piece)).map g)
      ≤ qsum (((xs.zip (xt.zip (y1.zip y2))).map
          fun p => (⟨p.1, p.2.1, p.2.2.1, p.2.2.2⟩ : Piece)).map g) := by
  induction h1 with
  | nil => intro y2 y2' _ xs xt; simp
  | @cons a a' r r' ha _ ih =>
    intro y2 y2' h2 xs xt
    cases h2 with
    | nil => simp
    | @cons b b' s s' hb hs =>
      cases xs with
      | nil => simp
      | cons x xs =>
        cases xt with
        | nil => simp
        | cons x' xt =>
          simp only [List.zip_cons_cons, List.map_cons, qsum]
          exact add_le_add (hg _ _ _ _ _ _ ha hb) (ih hs xs xt)

theorem F6_pwl_riemann_mono {f f' : Pwl} (hx : f.x = f'.x) (hy1 : List.Forall₂ (· ≥ ·) f.y1 f'.y1)
    (hy2 : List.Forall₂ (· ≥ ·) f.y2 f'.y2) (u v : Q) : f'.riemann u v ≤ f.riemann u v := by
  unfold Pwl.riemann Pwl.pieces
  rw [← hx]
  exact F6_pwl_sum_mono (fun p => p.clipInt u v)
    (fun _ _ _ _ _ _ hl hr => F6_clipInt_mono hl hr u v) hy1 hy2 _ _

/-- the average of two pointwise ordered piecewise-linear functions is ordered: `interval = None`,
    or an interval `(u, v)` with `u ≤ v ≤ b` (for `u < a` both calls fail) -/
theorem F6_pwlAvrgKw_ge {a b : Q} {f f' : Pwl} (h : F6_PwlGe a b f f') (iv : Option (Q × Q))
    (hiv : ∀ u v, iv = some (u, v) → u ≤ v ∧ v ≤ b) :
    F6_OptGe (pwlAvrgKw f iv) (pwlAvrgKw f' iv) := by
  obtain ⟨hy1, hy2⟩ := h.forall₂
  obtain ⟨hf, hf', hx, -, -⟩ := h
  have hab : a < b := by
    have := Pwl.first_lt_last hf.1
    rwa [hf.2.1, hf.2.2] at this
  cases iv with
  | none =>
    right
    refine ⟨_, _, rfl, rfl, ?_⟩
    rw [Pwl.avrgAll_eq hf.1, Pwl.avrgAll_eq hf'.1, hf.2.1, hf.2.2, hf'.2.1, hf'.2.2]
    exact div_le_div_of_nonneg_right (F6_pwl_riemann_mono hx hy1 hy2 a b) (by linarith)
  | some uv =>
    obtain ⟨u, v⟩ := uv
    obtain ⟨huv, hvb⟩ := hiv u v rfl
    show F6_OptGe (f.avrg u v) (f'.avrg u v)
    by_cases hn : u < a
    · left
      have e1 : f.integral u v = none := by
        rw [Pwl.integral_eq_none_iff hf.1, hf.2.1]; exact hn
      have e2 : f'.integral u v = none := by
        rw [Pwl.integral_eq_none_iff hf'.1, hf'.2.1]; exact hn
      simp [Pwl.avrg, e1, e2]
    · have hau : a ≤ u := not_lt.mp hn
      right
      rcases lt_or_eq_of_le huv with hlt | heq
      · refine ⟨_, _, Pwl.avrg_eq hf.1 (by rw [hf.2.1]; exact hau) hlt (by rw [hf.2.2]; exact hvb),
          Pwl.avrg_eq hf'.1 (by rw [hf'.2.1]; exact hau) hlt (by rw [hf'.2.2]; exact hvb), ?_⟩
        exact div_le_div_of_nonneg_right (F6_pwl_riemann_mono hx hy1 hy2 u v) (by linarith)
      · subst heq
        have n1 : f.integral u u ≠ none := by
          rw [Ne, Pwl.integral_eq_none_iff hf.1, hf.2.1]; exact hn
        have n2 : f'.integral u u ≠ none := by
          rw [Ne, Pwl.integral_eq_none_iff hf'.1, hf'.2.1]; exact hn
        obtain ⟨w1, e1⟩ := Option.ne_none_iff_exists'.mp n1
        obtain ⟨w2, e2⟩ := Option.ne_none_iff_exists'.mp n2
        refine ⟨0, 0, by simp [Pwl.avrg, e1], by simp [Pwl.avrg, e2], le_refl _⟩

/-- the `interval` keyword is `None` or an interval `u ≤ v ≤ te` -/
def F6_IvOK (te : Q) (iv : Option (Q × Q)) : Prop := ∀ u v, iv = some (u, v) → u ≤ v ∧ v ≤ te

/-- **C15, bivariate SPIKE distance** (outside F9) -/
theorem F6_spike_distance_antitone (kw : Kw) (m1 m2 : Q) (a b : Train) (hr : kw.recon = false)
    (ha : ValidTrain a) (hb : ValidTrain b) (hts : b.ts = a.ts) (hte : b.te = a.te)
    (hna : a.spikes ≠ [a.ts]) (hnb : b.spikes ≠ [a.ts]) (hiv : F6_IvOK a.te kw.interval)
    (hm : m1 ≤ m2) :
    F6_OptGe (spikeDistanceBi { kw with mrts := m1 } a b)
      (spikeDistanceBi { kw with mrts := m2 } a b) :=
  F6_pwlAvrgKw_ge (F6_spikeProfileBi_ge kw m1 m2 a b hr ha hb hts hte hna hnb hm) kw.interval hiv

theorem F6_spike_pair_distance_ge (kw : Kw) (m1 m2 : Q) (L : List Train) (ts te : Q)
    (hv : B5_ValidList ts te L) (hF9 : ∀ a ∈ L, a.spikes ≠ [ts]) (hiv : F6_IvOK te kw.interval)
    (hm : m1 ≤ m2) (i j : Nat) (hi : i < L.length) (hj : j < L.length) :
    F6_OptGe (spikeDistanceBi ({ kw with mrts := m1 } : Kw).noRecon (tr L i) (tr L j))
      (spikeDistanceBi ({ kw with mrts := m2 } : Kw).noRecon (tr L i) (tr L j)) := by
  have mi := B5_tr_mem L i hi
  have mj := B5_tr_mem L j hj
  obtain ⟨v1, s1, e1⟩ := hv _ mi
  obtain ⟨v2, s2, e2⟩ := hv _ mj
  exact F6_spike_distance_antitone kw.noRecon m1 m2 _ _ rfl v1 v2 (s2.trans s1.symm)
    (e2.trans e1.symm) (by rw [s1]; exact hF9 _ mi) (by rw [s1]; exact hF9 _ mj)
    (by rw [e1]; exact hiv) hm

/-- **C15, multivariate SPIKE distance** (any `kw`; outside F9; `interval` `None` or `u ≤ v ≤ te`) -/
theorem F6_spike_distance_multi_antitone (kw : Kw) (m1 m2 : Q) (L : List Train) (ts te : Q)
    (hv : B5_ValidList ts te L) (hne : L ≠ []) (hF9 : ∀ a ∈ L, a.spikes ≠ [ts])
    (hiv : F6_IvOK te kw.interval) (hm : m1 ≤ m2) :
    F6_OptGe (spikeDistanceMulti { kw with mrts := m1 } none L)
      (spikeDistanceMulti { kw with mrts := m2 } none L) := by
  unfold spikeDistanceMulti genericDistanceMulti
  simp only [B5_prep_valid _ ts te L hv hne, resolveIdx]
  apply F6_OptGe.map_div _ _ (by positivity)
  apply F6_sumOpt_ge
  rw [List.forall₂_map_left_iff, List.forall₂_map_right_iff, List.forall₂_same]
  intro p hp
  have := mem_posPairs hp
  exact F6_spike_pair_distance_ge kw m1 m2 L ts te hv hF9 hiv hm p.1 p.2 this.1 this.2

theorem F6_spike_distance_multi_antitone' (kw : Kw) (m1 m2 : Q) (L : List Train) (ts te : Q)
    (hv : B5_ValidList ts te L) (hne : L ≠ []) (hF9 : ∀ a ∈ L, a.spikes ≠ [ts])
    (hiv : F6_IvOK te kw.interval) (hm : m1 ≤ m2) (d1 d2 : Q)
    (h1 : spikeDistanceMulti { kw with mrts := m1 } none L = some d1)
    (h2 : spikeDistanceMulti { kw with mrts := m2 } none L = some d2) : d2 ≤ d1 :=
  (F6_spike_distance_multi_antitone kw m1 m2 L ts te hv hne hF9 hiv hm).le h1 h2

/-- **C15, SPIKE distance matrix**: every entry is antitone in MRTS -/
theorem F6_spike_distance_matrix_antitone (kw : Kw) (m1 m2 : Q) (L : List Train) (ts te : Q)
    (hv : B5_ValidList ts te L) (hne : L ≠ []) (hF9 : ∀ a ∈ L, a.spikes ≠ [ts])
    (hiv : F6_IvOK te kw.interval) (hm : m1 ≤ m2) (M1 M2 : List (List Q))
    (h1 : spikeDistanceMatrix { kw with mrts := m1 } none L = some M1)
    (h2 : spikeDistanceMatrix { kw with mrts := m2 } none L = some M2)
    (i j : Nat) (hi : i < L.length) (hj : j < L.length) :
    (M2.getD i []).getD j 0 ≤ (M1.getD i []).getD j 0 := by
  unfold spikeDistanceMatrix at h1 h2
  simp only [B5_prep_valid _ ts te L hv hne, resolveIdx] at h1 h2
  have e1 := genericDistanceMatrix_entry _ _ _ _ _ _ h1 i j (by simpa using hi) (by simpa using hj)
  have e2 := genericDistanceMatrix_entry _ _ _ _ _ _ h2 i j (by simpa using hi) (by simpa using hj)
  have gi : (List.range L.length).getD i 0 = i := getD_range _ _ hi
  have gj : (List.range L.length).getD j 0 = j := getD_range _ _ hj
  refine F6_OptGe.le ?_ e1 e2
  unfold matEntry
  rw [gi, gj]
  by_cases hij : i = j
  · rw [if_pos hij, if_pos hij]; right; exact ⟨0, 0, rfl, rfl, le_refl _⟩
  · rw [if_neg hij, if_neg hij]
    by_cases hlt : i < j
    · rw [if_pos hlt, if_pos hlt]
      exact F6_spike_pair_distance_ge kw m1 m2 L ts te hv hF9 hiv hm i j hi hj
    · rw [if_neg hlt, if_neg hlt]
      exact (F6_spike_pair_distance_ge kw m1 m2 L ts te hv hF9 hiv hm j i hj hi).map_mul 1
        (by norm_num)

example : F6_IvOK 6 ({ } : Kw).interval ∧ F6_IvOK 6 ({ interval := some (1, 4) } : Kw).interval := by
  constructor
  · intro u v h; cases h
  · intro u v h
    simp only [Option.some.injEq, Prod.mk.injEq] at h
    obtain ⟨rfl, rfl⟩ := h
    norm_num

/-! ### the assembled automatic threshold (`MRTS = 'auto'`) -/

/-- **C15, automatic threshold**: outside the F7 class (no train is a single spike on an edge or
    exactly the two edges) the square of `default_thresh` is the mean of the squared entries of the
    pooled inter-spike-interval lists `isiListSpec` (edge rule of the profiles: the larger of edge
    distance and neighbouring interval; an empty train contributes the recording length), all
    taken with the edges of the FIRST train, as the code does. -/
theorem F6_auto_threshold_spec (st : Train) (L : List Train)
    (h : ∀ t ∈ st :: L, (∀ x ∈ t.spikes, st.ts ≤ x ∧ x ≤ st.te) ∧ ¬ F7class t.spikes st.ts st.te) :
    defaultThreshSq (st :: L)
      = qsum (((st :: L).flatMap fun t => isiListSpec t.spikes st.ts st.te).map (· ^ 2))
        / ((((st :: L).flatMap fun t => isiListSpec t.spikes st.ts st.te).length : Nat) : Q) := by
  have e : ((st :: L).flatMap fun t => isiLengths t.spikes st.ts st.te)
      = (st :: L).flatMap fun t => isiListSpec t.spikes st.ts st.te := by
    apply List.flatMap_congr
    intro t ht
    exact C5_isiLengths_eq_spec t.spikes st.ts st.te (h t ht).1 (h t ht).2
  show qsum (((st :: L).flatMap fun t => isiLengths t.spikes st.ts st.te).map fun x => x * x)
      / ((((st :: L).flatMap fun t => isiLengths t.spikes st.ts st.te).length : Nat) : Q) = _
  rw [e]
  congr 2
  apply List.map_congr_left
  intro x _
  ring

/-- the same for a list of valid trains with common edges -/
theorem F6_auto_threshold_spec_valid (ts te : Q) (L : List Train) (hv : B5_ValidList ts te L)
    (hF7 : ∀ t ∈ L, ¬ F7class t.spikes ts te) (hne : L ≠ []) :
    defaultThreshSq L
      = qsum ((L.flatMap fun t => isiListSpec t.spikes ts te).map (· ^ 2))
        / (((L.flatMap fun t => isiListSpec t.spikes ts te).length : Nat) : Q) := by
  cases L with
  | nil => exact absurd rfl hne
  | cons st L =>
    obtain ⟨-, s0, e0⟩ := hv st (by simp)
    have := F6_auto_threshold_spec st L (by
      intro t ht
      obtain ⟨v, -, -⟩ := hv t ht
      obtain ⟨v0, s1, e1⟩ := hv t ht
      rw [s0, e0]
      refine ⟨?_, hF7 t ht⟩
      intro x hx
      have := v0.2.2 x hx
      rwa [s1, e1] at this)
    rw [s0, e0] at this
    exact this

/-- the F7 hypothesis is needed: with a single spike on the start edge the code pools `[0, 4]`
    where the inter-spike-interval list is `[4]` -/
example : defaultThreshSq [⟨[0], 0, 4⟩] = 8 ∧
    qsum ((isiListSpec [0] 0 4).map (· ^ 2)) / ((isiListSpec [0] 0 4).length : Q) = 16 := by
  decide +kernel
example : ∀ t ∈ B5_exL, ¬ F7class t.spikes 0 6 := by decide +kernel

end PySpike
