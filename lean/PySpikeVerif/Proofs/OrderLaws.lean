/-
  Proofs/OrderLaws.lean — work package B2 (property C04): the order / directionality scans under
  exchange of the two trains, value ranges, and the sign convention.
-/
import PySpikeVerif.Model.Sync
import PySpikeVerif.Model.Api
import PySpikeVerif.Proofs.Basic
import PySpikeVerif.Proofs.TauLaws
import PySpikeVerif.Proofs.Affine
import PySpikeVerif.Proofs.ApiLaws
import PySpikeVerif.Proofs.FuncLaws
import PySpikeVerif.Proofs.Reconcile
import Mathlib.Tactic.Linarith
import Mathlib.Tactic.Ring
import Mathlib.Algebra.Order.Field.Rat
import Mathlib.Data.List.Basic

namespace PySpike

/-! ## 1. the window under exchange of the two trains -/

/-- the window is symmetric under exchanging the two trains when the two current spikes differ -/
theorem getTau_swap (p1 n1 p2 n2 : Option Q) (a b M m : Q) (hab : a ≠ b) :
    getTau p1 (some a) n1 p2 (some b) n2 M m = getTau p2 (some b) n2 p1 (some a) n1 M m := by
  unfold getTau
  rcases lt_or_gt_of_ne hab with h | h
  · have h1 : tauFirst (some a) (some b) = true := by simp [tauFirst, le_of_lt h]
    have h2 : tauFirst (some b) (some a) = false := by simp [tauFirst, h]
    simp only [h1, h2, if_true, Bool.false_eq_true, if_false]
    rw [min_comm (interp _ _ _) (interp _ _ _)]
  · have h1 : tauFirst (some a) (some b) = false := by simp [tauFirst, h]
    have h2 : tauFirst (some b) (some a) = true := by simp [tauFirst, le_of_lt h]
    simp only [h1, h2, if_true, Bool.false_eq_true, if_false]
    rw [min_comm (interp _ _ _) (interp _ _ _)]

example : getTau (some 0) (some 1) (some 3) none (some 2) (some 7) 10 1
    = getTau none (some 2) (some 7) (some 0) (some 1) (some 3) 10 1 :=
  getTau_swap _ _ _ _ 1 2 10 1 (by decide)

/-- the hypothesis is needed: with a missing current spike, or two equal current spikes, `tauFirst`
    holds on both sides and the two `Interpolate` calls do not swap roles -/
example : getTau none (some 3) (some 1) none none none 10 0
    ≠ getTau none none none none (some 3) (some 1) 10 0 := by decide +kernel
example : getTau none (some 3) none none (some 3) (some 1) 10 0
    ≠ getTau none (some 3) (some 1) none (some 3) none 10 0 := by decide +kernel

/-- `get_tau` at the cursor, trains exchanged; the two newest consumed spikes must differ -/
theorem tauAt_swap (a : Q) (k1 r1 : List Q) (b : Q) (k2 r2 : List Q) (tm m : Q) (hab : a ≠ b) :
    tauAt (a :: k1) r1 (b :: k2) r2 tm m = tauAt (b :: k2) r2 (a :: k1) r1 tm m := by
  unfold tauAt
  simp only [List.head?_cons, List.tail_cons]
  exact getTau_swap _ _ _ _ a b tm m hab

example : tauAt [1, 0] [3] [2] [7] 10 1 = tauAt [2] [7] [1, 0] [3] 10 1 :=
  tauAt_swap 1 [0] [3] 2 [] [7] 10 1 (by decide)

/-! ## 2. the merge scan under exchange of the two trains -/

/-- cursor invariant of the merge scans: both remaining parts strictly increasing and every consumed
    spike of one train before every remaining spike of the other -/
structure B2_Inv (k1 r1 k2 r2 : List Q) : Prop where
  s1 : r1.Pairwise (· < ·)
  s2 : r2.Pairwise (· < ·)
  c21 : ∀ x ∈ k2, ∀ y ∈ r1, x < y
  c12 : ∀ x ∈ k1, ∀ y ∈ r2, x < y

theorem B2_Inv.symm {k1 r1 k2 r2 : List Q} (h : B2_Inv k1 r1 k2 r2) : B2_Inv k2 r2 k1 r1 :=
  ⟨h.s2, h.s1, h.c12, h.c21⟩

theorem B2_Inv.init {s1 s2 : List Q} (h1 : s1.Pairwise (· < ·)) (h2 : s2.Pairwise (· < ·)) :
    B2_Inv [] s1 [] s2 :=
  ⟨h1, h2, fun _ hx => absurd hx List.not_mem_nil, fun _ hx => absurd hx List.not_mem_nil⟩

/-- train 1 advances alone (its next spike is before the next spike of train 2, if any) -/
theorem B2_Inv.step1 {k1 r1 k2 r2 : List Q} {a : Q} (h : B2_Inv k1 (a :: r1) k2 r2)
    (hlt : ∀ y ∈ r2, a < y) : B2_Inv (a :: k1) r1 k2 r2 := by
  refine ⟨(List.pairwise_cons.mp h.s1).2, h.s2, ?_, ?_⟩
  · intro x hx y hy
    exact h.c21 x hx y (List.mem_cons_of_mem _ hy)
  · intro x hx y hy
    rcases List.mem_cons.mp hx with rfl | hx
    · exact hlt y hy
    · exact h.c12 x hx y hy

theorem B2_Inv.step2 {k1 r1 k2 r2 : List Q} {b : Q} (h : B2_Inv k1 r1 k2 (b :: r2))
    (hlt : ∀ y ∈ r1, b < y) : B2_Inv k1 r1 (b :: k2) r2 :=
  (B2_Inv.step1 h.symm hlt).symm

/-- both trains advance (equal next spikes) -/
theorem B2_Inv.step12 {k1 r1 k2 r2 : List Q} {a b : Q} (h : B2_Inv k1 (a :: r1) k2 (b :: r2))
    (hab : ¬ a < b) (hba : ¬ b < a) : B2_Inv (a :: k1) r1 (b :: k2) r2 := by
  have e : a = b := le_antisymm (not_lt.mp hba) (not_lt.mp hab)
  subst e
  have p1 := List.pairwise_cons.mp h.s1
  have p2 := List.pairwise_cons.mp h.s2
  refine ⟨p1.2, p2.2, ?_, ?_⟩
  · intro x hx y hy
    rcases List.mem_cons.mp hx with rfl | hx
    · exact p1.1 y hy
    · exact h.c21 x hx y (List.mem_cons_of_mem _ hy)
  · intro x hx y hy
    rcases List.mem_cons.mp hx with rfl | hx
    · exact p2.1 y hy
    · exact h.c12 x hx y (List.mem_cons_of_mem _ hy)

theorem B2_lt_of_lt_head {a b : Q} {r2 : List Q} (s2 : (b :: r2).Pairwise (· < ·)) (hab : a < b) :
    ∀ y ∈ b :: r2, a < y := by
  intro y hy
  rcases List.mem_cons.mp hy with rfl | hy
  · exact hab
  · exact lt_trans hab ((List.pairwise_cons.mp s2).1 y hy)

/-- the entry written by one step, trains exchanged -/
theorem B2_scanOut_swap (v a : Q) (k1 r1 k2 r2 : List Q) (tm m : Q) (out : List (Q × Q × Q))
    (h : ∀ x ∈ k2, x < a) :
    scanOut v a k2 (tauAt (a :: k1) r1 k2 r2 tm m) out
      = scanOut v a k2 (tauAt k2 r2 (a :: k1) r1 tm m) out := by
  cases k2 with
  | nil => rfl
  | cons j t =>
    rw [tauAt_swap a k1 r1 j t r2 tm m (ne_of_gt (h j List.mem_cons_self))]

/-- swapping the trains swaps the roles of `v1` and `v2` -/
theorem scanLoop_swap (v1 v2 vt tm m : Q) (k1 r1 k2 r2 : List Q) (out : List (Q × Q × Q))
    (h : B2_Inv k1 r1 k2 r2) :
    scanLoop v1 v2 vt tm m k1 r1 k2 r2 out = scanLoop v2 v1 vt tm m k2 r2 k1 r1 out := by
  induction k1, r1, k2, r2, out using scanLoop.induct v1 v2 vt tm m with
  | case1 k1 k2 out => simp only [scanLoop]
  | case2 k1 k2 out a r1' tau out' ih =>
    have e : out' = scanOut v1 a k2 (tauAt (a :: k1) r1' k2 [] tm m) out := by cases k2 <;> rfl
    rw [e] at ih
    have hk : ∀ x ∈ k2, x < a := fun x hx => h.c21 x hx a List.mem_cons_self
    rw [scanLoop_eq2, scanLoop_eq3, ih (h.step1 (fun _ hy => absurd hy List.not_mem_nil)),
      B2_scanOut_swap v1 a k1 r1' k2 [] tm m out hk]
  | case3 k1 k2 out b r2' tau out' ih =>
    have e : out' = scanOut v2 b k1 (tauAt k1 [] (b :: k2) r2' tm m) out := by cases k1 <;> rfl
    rw [e] at ih
    have hk : ∀ x ∈ k1, x < b := fun x hx => h.c12 x hx b List.mem_cons_self
    rw [scanLoop_eq2, scanLoop_eq3, ih (h.step2 (fun _ hy => absurd hy List.not_mem_nil)),
      B2_scanOut_swap v2 b k2 r2' k1 [] tm m out hk]
  | case4 k1 k2 out a r1' b r2' hab tau out' ih =>
    have e : out' = scanOut v1 a k2 (tauAt (a :: k1) r1' k2 (b :: r2') tm m) out := by
      cases k2 <;> rfl
    rw [e] at ih
    have hk : ∀ x ∈ k2, x < a := fun x hx => h.c21 x hx a List.mem_cons_self
    rw [scanLoop_eq4 _ _ _ _ _ _ _ _ _ _ _ _ hab,
      scanLoop_eq5 _ _ _ _ _ _ _ _ _ _ _ _ (not_lt.mpr (le_of_lt hab)) hab,
      ih (h.step1 (B2_lt_of_lt_head h.s2 hab)),
      B2_scanOut_swap v1 a k1 r1' k2 (b :: r2') tm m out hk]
  | case5 k1 k2 out a r1' b r2' hab hba tau out' ih =>
    have e : out' = scanOut v2 b k1 (tauAt k1 (a :: r1') (b :: k2) r2' tm m) out := by
      cases k1 <;> rfl
    rw [e] at ih
    have hk : ∀ x ∈ k1, x < b := fun x hx => h.c12 x hx b List.mem_cons_self
    rw [scanLoop_eq5 _ _ _ _ _ _ _ _ _ _ _ _ hab hba,
      scanLoop_eq4 _ _ _ _ _ _ _ _ _ _ _ _ hba,
      ih (h.step2 (B2_lt_of_lt_head h.s1 hba)),
      B2_scanOut_swap v2 b k2 r2' k1 (a :: r1') tm m out hk]
  | case6 k1 k2 out a r1' b r2' hab hba ih =>
    have e : a = b := le_antisymm (not_lt.mp hba) (not_lt.mp hab)
    rw [scanLoop_eq6 _ _ _ _ _ _ _ _ _ _ _ _ hab hba,
      scanLoop_eq6 _ _ _ _ _ _ _ _ _ _ _ _ hba hab, ih (h.step12 hab hba), e]

example : B2_Inv [1] [3, 5] [2] [4, 6] :=
  ⟨by decide, by decide, by decide, by decide⟩

example : scanLoop (-1) 1 0 10 0 [1] [3, 5] [2] [4, 6] [(2, 1, 1), (1, 1, 1)]
    = scanLoop 1 (-1) 0 10 0 [2] [4, 6] [1] [3, 5] [(2, 1, 1), (1, 1, 1)] :=
  scanLoop_swap _ _ _ _ _ _ _ _ _ _ ⟨by decide, by decide, by decide, by decide⟩

/-- induction along the merge order of the two cursors (the recursion scheme shared by `scanLoop`
    and `dirLoop`) -/
theorem B2_merge_induct {motive : List Q → List Q → List Q → List Q → Prop}
    (nil : ∀ k1 k2, motive k1 [] k2 [])
    (left : ∀ k1 a r1 k2, motive (a :: k1) r1 k2 [] → motive k1 (a :: r1) k2 [])
    (right : ∀ k1 k2 b r2, motive k1 [] (b :: k2) r2 → motive k1 [] k2 (b :: r2))
    (lt : ∀ k1 a r1 k2 b r2, a < b → motive (a :: k1) r1 k2 (b :: r2) →
      motive k1 (a :: r1) k2 (b :: r2))
    (gt : ∀ k1 a r1 k2 b r2, ¬ a < b → b < a → motive k1 (a :: r1) (b :: k2) r2 →
      motive k1 (a :: r1) k2 (b :: r2))
    (eq : ∀ k1 a r1 k2 b r2, ¬ a < b → ¬ b < a → motive (a :: k1) r1 (b :: k2) r2 →
      motive k1 (a :: r1) k2 (b :: r2)) :
    ∀ k1 r1 k2 r2, motive k1 r1 k2 r2 := by
  intro k1 r1 k2 r2
  induction k1, r1, k2, r2, ([] : List (Q × Q × Q)) using scanLoop.induct 0 0 0 0 0 with
  | case1 k1 k2 out => exact nil k1 k2
  | case2 k1 k2 out a r1' tau out' ih => exact left _ _ _ _ ih
  | case3 k1 k2 out b r2' tau out' ih => exact right _ _ _ _ ih
  | case4 k1 k2 out a r1' b r2' hab tau out' ih => exact lt _ _ _ _ _ _ hab ih
  | case5 k1 k2 out a r1' b r2' hab hba tau out' ih => exact gt _ _ _ _ _ _ hab hba ih
  | case6 k1 k2 out a r1' b r2' hab hba ih => exact eq _ _ _ _ _ _ hab hba ih

/-! ### negating the three written values -/

/-- negate the value of a profile entry -/
def B2_negE (e : Q × Q × Q) : Q × Q × Q := (e.1, -e.2.1, e.2.2)

theorem B2_markHead_neg (v : Q) (out : List (Q × Q × Q)) :
    markHead (-v) (out.map B2_negE) = (markHead v out).map B2_negE := by
  cases out with
  | nil => rfl
  | cons e r => obtain ⟨t, c, mp⟩ := e; rfl

theorem B2_scanOut_neg (v a : Q) (k : List Q) (tau : Q) (out : List (Q × Q × Q)) :
    scanOut (-v) a k tau (out.map B2_negE) = (scanOut v a k tau out).map B2_negE := by
  cases k with
  | nil => simp [scanOut, B2_negE]
  | cons j t =>
    simp only [scanOut]
    split_ifs
    · simp only [List.map_cons, B2_markHead_neg, B2_negE]
    · simp [B2_negE]

theorem B2_scanLoop_neg (v1 v2 vt tm m : Q) (k1 r1 k2 r2 : List Q) :
    ∀ out : List (Q × Q × Q),
      scanLoop (-v1) (-v2) (-vt) tm m k1 r1 k2 r2 (out.map B2_negE)
        = (scanLoop v1 v2 vt tm m k1 r1 k2 r2 out).map B2_negE := by
  induction k1, r1, k2, r2 using B2_merge_induct with
  | nil k1 k2 => intro out; simp only [scanLoop]
  | left k1 a r1 k2 ih =>
    intro out; rw [scanLoop_eq2, scanLoop_eq2, B2_scanOut_neg, ih]
  | right k1 k2 b r2 ih =>
    intro out; rw [scanLoop_eq3, scanLoop_eq3, B2_scanOut_neg, ih]
  | lt k1 a r1 k2 b r2 hab ih =>
    intro out
    rw [scanLoop_eq4 _ _ _ _ _ _ _ _ _ _ _ _ hab, scanLoop_eq4 _ _ _ _ _ _ _ _ _ _ _ _ hab,
      B2_scanOut_neg, ih]
  | gt k1 a r1 k2 b r2 hab hba ih =>
    intro out
    rw [scanLoop_eq5 _ _ _ _ _ _ _ _ _ _ _ _ hab hba, scanLoop_eq5 _ _ _ _ _ _ _ _ _ _ _ _ hab hba,
      B2_scanOut_neg, ih]
  | eq k1 a r1 k2 b r2 hab hba ih =>
    intro out
    rw [scanLoop_eq6 _ _ _ _ _ _ _ _ _ _ _ _ hab hba, scanLoop_eq6 _ _ _ _ _ _ _ _ _ _ _ _ hab hba,
      ← ih]
    rfl

/-! ### the scan writes at least one entry per step -/

theorem B2_scanOut_length (v a : Q) (k : List Q) (tau : Q) (out : List (Q × Q × Q)) :
    (scanOut v a k tau out).length = out.length + 1 := by
  have hm : ∀ o : List (Q × Q × Q), (markHead v o).length = o.length := by
    intro o; cases o with
    | nil => rfl
    | cons e r => obtain ⟨t, c, mp⟩ := e; rfl
  cases k with
  | nil => simp [scanOut]
  | cons j t =>
    simp only [scanOut]
    split_ifs <;> simp [hm]

theorem B2_scanLoop_length_ge (v1 v2 vt tm m : Q) (k1 r1 k2 r2 : List Q) :
    ∀ out : List (Q × Q × Q), out.length ≤ (scanLoop v1 v2 vt tm m k1 r1 k2 r2 out).length := by
  induction k1, r1, k2, r2 using B2_merge_induct with
  | nil k1 k2 => intro out; simp only [scanLoop, le_refl]
  | left k1 a r1 k2 ih =>
    intro out; rw [scanLoop_eq2]
    exact le_trans (by rw [B2_scanOut_length]; omega) (ih _)
  | right k1 k2 b r2 ih =>
    intro out; rw [scanLoop_eq3]
    exact le_trans (by rw [B2_scanOut_length]; omega) (ih _)
  | lt k1 a r1 k2 b r2 hab ih =>
    intro out; rw [scanLoop_eq4 _ _ _ _ _ _ _ _ _ _ _ _ hab]
    exact le_trans (by rw [B2_scanOut_length]; omega) (ih _)
  | gt k1 a r1 k2 b r2 hab hba ih =>
    intro out; rw [scanLoop_eq5 _ _ _ _ _ _ _ _ _ _ _ _ hab hba]
    exact le_trans (by rw [B2_scanOut_length]; omega) (ih _)
  | eq k1 a r1 k2 b r2 hab hba ih =>
    intro out; rw [scanLoop_eq6 _ _ _ _ _ _ _ _ _ _ _ _ hab hba]
    exact le_trans (by simp) (ih _)

theorem B2_scanLoop_ne_nil (v1 v2 vt tm m : Q) (k1 r1 k2 r2 : List Q) (out : List (Q × Q × Q))
    (h : r1 ≠ [] ∨ r2 ≠ []) : scanLoop v1 v2 vt tm m k1 r1 k2 r2 out ≠ [] := by
  have key : ∀ k1 r1 k2 r2 (o : List (Q × Q × Q)), o ≠ [] →
      scanLoop v1 v2 vt tm m k1 r1 k2 r2 o ≠ [] := by
    intro k1 r1 k2 r2 o ho hn
    have := B2_scanLoop_length_ge v1 v2 vt tm m k1 r1 k2 r2 o
    rw [hn] at this
    exact ho (List.eq_nil_of_length_eq_zero (Nat.le_zero.mp this))
  have hs : ∀ v a k tau, scanOut v a k tau out ≠ [] := by
    intro v a k tau hn
    have := B2_scanOut_length v a k tau out
    rw [hn] at this
    simp at this
  cases r1 with
  | nil =>
    cases r2 with
    | nil => simp at h
    | cons b r2 => rw [scanLoop_eq3]; exact key _ _ _ _ _ (hs _ _ _ _)
  | cons a r1 =>
    cases r2 with
    | nil => rw [scanLoop_eq2]; exact key _ _ _ _ _ (hs _ _ _ _)
    | cons b r2 =>
      by_cases hab : a < b
      · rw [scanLoop_eq4 _ _ _ _ _ _ _ _ _ _ _ _ hab]; exact key _ _ _ _ _ (hs _ _ _ _)
      · by_cases hba : b < a
        · rw [scanLoop_eq5 _ _ _ _ _ _ _ _ _ _ _ _ hab hba]; exact key _ _ _ _ _ (hs _ _ _ _)
        · rw [scanLoop_eq6 _ _ _ _ _ _ _ _ _ _ _ _ hab hba]
          exact key _ _ _ _ _ (List.cons_ne_nil _ _)

/-! ### the framed profiles -/

theorem B2_frameProfile_neg (ts te : Q) (l : List (Q × Q × Q)) (h : l ≠ []) :
    frameProfile ts te (l.map B2_negE) = (frameProfile ts te l).map B2_negE := by
  cases l with
  | nil => exact absurd rfl h
  | cons f r =>
    have hl := lastD_map B2_negE (f :: r) f
    simp only [List.map_cons] at hl
    simp only [frameProfile, List.map_cons, List.map_append, List.map_nil, hl]
    rfl

/-- SPIKE-Sync profile: exchanging the trains changes nothing -/
theorem coincProfile_swap (s1 s2 : List Q) (ts te mt m : Q)
    (h1 : s1.Pairwise (· < ·)) (h2 : s2.Pairwise (· < ·)) :
    coincProfile s2 s1 ts te mt m = coincProfile s1 s2 ts te mt m := by
  unfold coincProfile
  rw [scanLoop_swap 1 1 2 _ m [] s2 [] s1 [] (B2_Inv.init h2 h1)]

example : coincProfile [2, 5] [1, 4] 0 6 0 0 = coincProfile [1, 4] [2, 5] 0 6 0 0 :=
  coincProfile_swap _ _ 0 6 0 0 (by decide) (by decide)

/-- strict sortedness is needed (a repeated spike time breaks the symmetry of the window) -/
example : coincProfile [1] [1, 1] 0 6 0 4 ≠ coincProfile [1, 1] [1] 0 6 0 4 := by decide +kernel

/-- spike-train-order profile: exchanging the trains keeps times and multiplicities and negates
    every value (for two empty trains both profiles are the constant `[(ts,1,1),(te,1,1)]`) -/
theorem orderProfile_swap_neg (s1 s2 : List Q) (ts te mt m : Q)
    (h1 : s1.Pairwise (· < ·)) (h2 : s2.Pairwise (· < ·)) (hne : s1 ≠ [] ∨ s2 ≠ []) :
    orderProfile s2 s1 ts te mt m
      = (orderProfile s1 s2 ts te mt m).map (fun e => (e.1, -e.2.1, e.2.2)) := by
  unfold orderProfile
  rw [scanLoop_swap (-1) 1 0 _ m [] s2 [] s1 [] (B2_Inv.init h2 h1)]
  have hneg := B2_scanLoop_neg (-1) 1 0 (trueMax ts te mt) m [] s1 [] s2 []
  simp only [neg_neg, neg_zero, List.map_nil] at hneg
  rw [hneg, ← List.map_reverse, B2_frameProfile_neg]
  · rfl
  · intro hn
    rw [List.reverse_eq_nil_iff] at hn
    exact B2_scanLoop_ne_nil _ _ _ _ _ _ _ _ _ _ hne hn

example : orderProfile [2, 5] [1, 4] 0 6 0 0
    = (orderProfile [1, 4] [2, 5] 0 6 0 0).map (fun e => (e.1, -e.2.1, e.2.2)) :=
  orderProfile_swap_neg _ _ 0 6 0 0 (by decide) (by decide) (by decide)

theorem B2_orderProfile_nil_nil (ts te mt m : Q) :
    orderProfile [] [] ts te mt m = [(ts, 1, 1), (te, 1, 1)] := by
  simp [orderProfile, scanLoop, frameProfile]

/-! ## 4. ranges of the values -/

/-- range predicate of a profile entry `(t, c, mp)`: `s·mp ≤ c ≤ mp` and `mp ∈ {1, 2}`
    (`s = 0` for SPIKE-Sync, `s = -1` for spike-train order) -/
def B2_Rng (s : Q) (e : Q × Q × Q) : Prop :=
  s * e.2.2 ≤ e.2.1 ∧ e.2.1 ≤ e.2.2 ∧ (e.2.2 = 1 ∨ e.2.2 = 2)

theorem B2_markHead_rng (s v : Q) (hs : s ≤ 0) (hv1 : s ≤ v) (hv2 : v ≤ 1)
    (out : List (Q × Q × Q)) (h : ∀ e ∈ out, B2_Rng s e) : ∀ e ∈ markHead v out, B2_Rng s e := by
  cases out with
  | nil => intro e he; exact absurd he List.not_mem_nil
  | cons f r =>
    obtain ⟨t, c, mp⟩ := f
    intro e he
    simp only [markHead] at he
    rcases List.mem_cons.mp he with rfl | he
    · have hf := h (t, c, mp) List.mem_cons_self
      simp only [B2_Rng] at hf ⊢
      rcases hf.2.2 with h1 | h2
      · rw [h1]; exact ⟨by linarith, by linarith, Or.inl rfl⟩
      · rw [h2]; exact ⟨by linarith, by linarith, Or.inr rfl⟩
    · exact h e (List.mem_cons_of_mem _ he)

theorem B2_scanOut_rng (s v : Q) (hs : s ≤ 0) (hv1 : s ≤ v) (hv2 : v ≤ 1) (a : Q) (k : List Q)
    (tau : Q) (out : List (Q × Q × Q)) (h : ∀ e ∈ out, B2_Rng s e) :
    ∀ e ∈ scanOut v a k tau out, B2_Rng s e := by
  have h0 : B2_Rng s (a, 0, 1) := ⟨by simp only; linarith, by norm_num, Or.inl rfl⟩
  have hv : B2_Rng s (a, v, 1) := ⟨by simp only; linarith, hv2, Or.inl rfl⟩
  have hc : ∀ (x : Q × Q × Q) (o : List (Q × Q × Q)), B2_Rng s x → (∀ e ∈ o, B2_Rng s e) →
      ∀ e ∈ x :: o, B2_Rng s e := by
    intro x o hx ho e he
    rcases List.mem_cons.mp he with rfl | he
    · exact hx
    · exact ho e he
  cases k with
  | nil => exact hc _ _ h0 h
  | cons j t =>
    simp only [scanOut]
    split_ifs
    · exact hc _ _ hv (B2_markHead_rng s v hs hv1 hv2 out h)
    · exact hc _ _ h0 h

theorem B2_scanLoop_rng (s v1 v2 vt tm m : Q) (hs : s ≤ 0) (h11 : s ≤ v1) (h12 : v1 ≤ 1)
    (h21 : s ≤ v2) (h22 : v2 ≤ 1) (ht1 : s * 2 ≤ vt) (ht2 : vt ≤ 2) (k1 r1 k2 r2 : List Q) :
    ∀ out : List (Q × Q × Q), (∀ e ∈ out, B2_Rng s e) →
      ∀ e ∈ scanLoop v1 v2 vt tm m k1 r1 k2 r2 out, B2_Rng s e := by
  induction k1, r1, k2, r2 using B2_merge_induct with
  | nil k1 k2 => intro out h; simpa only [scanLoop] using h
  | left k1 a r1 k2 ih =>
    intro out h; rw [scanLoop_eq2]
    exact ih _ (B2_scanOut_rng s v1 hs h11 h12 _ _ _ _ h)
  | right k1 k2 b r2 ih =>
    intro out h; rw [scanLoop_eq3]
    exact ih _ (B2_scanOut_rng s v2 hs h21 h22 _ _ _ _ h)
  | lt k1 a r1 k2 b r2 hab ih =>
    intro out h; rw [scanLoop_eq4 _ _ _ _ _ _ _ _ _ _ _ _ hab]
    exact ih _ (B2_scanOut_rng s v1 hs h11 h12 _ _ _ _ h)
  | gt k1 a r1 k2 b r2 hab hba ih =>
    intro out h; rw [scanLoop_eq5 _ _ _ _ _ _ _ _ _ _ _ _ hab hba]
    exact ih _ (B2_scanOut_rng s v2 hs h21 h22 _ _ _ _ h)
  | eq k1 a r1 k2 b r2 hab hba ih =>
    intro out h; rw [scanLoop_eq6 _ _ _ _ _ _ _ _ _ _ _ _ hab hba]
    apply ih
    intro e he
    rcases List.mem_cons.mp he with rfl | he
    · exact ⟨ht1, ht2, Or.inr rfl⟩
    · exact h e he

theorem B2_lastD_mem {α} (a : α) (r : List α) (d : α) : lastD (a :: r) d ∈ a :: r := by
  induction r generalizing a with
  | nil => simp [lastD]
  | cons b r ih =>
    simp only [lastD]
    exact List.mem_cons_of_mem _ (ih b)

theorem B2_frameProfile_rng (s ts te : Q) (hs : s ≤ 0) (l : List (Q × Q × Q))
    (h : ∀ e ∈ l, B2_Rng s e) : ∀ e ∈ frameProfile ts te l, B2_Rng s e := by
  cases l with
  | nil =>
    intro e he
    simp only [frameProfile, List.mem_cons, List.not_mem_nil, or_false] at he
    rcases he with rfl | rfl <;> exact ⟨by simp only; linarith, le_refl _, Or.inl rfl⟩
  | cons f r =>
    intro e he
    simp only [frameProfile, List.cons_append, List.mem_cons, List.mem_append, List.not_mem_nil,
      or_false] at he
    rcases he with rfl | rfl | he | rfl
    · exact h f List.mem_cons_self
    · exact h e List.mem_cons_self
    · exact h e (List.mem_cons_of_mem _ he)
    · exact (h _ (B2_lastD_mem f r f) : B2_Rng s (lastD (f :: r) f))

theorem B2_coincProfile_rng (s1 s2 : List Q) (ts te mt m : Q) :
    ∀ e ∈ coincProfile s1 s2 ts te mt m, B2_Rng 0 e := by
  unfold coincProfile
  apply B2_frameProfile_rng 0 ts te (le_refl _)
  intro e he
  rw [List.mem_reverse] at he
  exact B2_scanLoop_rng 0 1 1 2 _ m (le_refl _) (by norm_num) (le_refl _) (by norm_num) (le_refl _)
    (by norm_num) (le_refl _) [] s1 [] s2 [] (fun _ hx => absurd hx List.not_mem_nil) e he

theorem B2_orderProfile_rng (s1 s2 : List Q) (ts te mt m : Q) :
    ∀ e ∈ orderProfile s1 s2 ts te mt m, B2_Rng (-1) e := by
  unfold orderProfile
  apply B2_frameProfile_rng (-1) ts te (by norm_num)
  intro e he
  rw [List.mem_reverse] at he
  exact B2_scanLoop_rng (-1) (-1) 1 0 _ m (by norm_num) (le_refl _) (by norm_num) (by norm_num)
    (le_refl _) (by norm_num) (by norm_num) [] s1 [] s2 [] (fun _ hx => absurd hx List.not_mem_nil)
    e he

/-- every SPIKE-Sync profile entry `(t, c, mp)` has `0 ≤ c ≤ mp` and `mp ∈ {1, 2}` -/
theorem B2_coincProfile_range (s1 s2 : List Q) (ts te mt m : Q) (e : Q × Q × Q)
    (he : e ∈ coincProfile s1 s2 ts te mt m) :
    0 ≤ e.2.1 ∧ e.2.1 ≤ e.2.2 ∧ (e.2.2 = 1 ∨ e.2.2 = 2) := by
  have h := B2_coincProfile_rng s1 s2 ts te mt m e he
  simp only [B2_Rng, zero_mul] at h
  exact h

/-- every spike-train-order profile entry `(t, c, mp)` has `-mp ≤ c ≤ mp` and `mp ∈ {1, 2}` -/
theorem B2_orderProfile_range (s1 s2 : List Q) (ts te mt m : Q) (e : Q × Q × Q)
    (he : e ∈ orderProfile s1 s2 ts te mt m) :
    -e.2.2 ≤ e.2.1 ∧ e.2.1 ≤ e.2.2 ∧ (e.2.2 = 1 ∨ e.2.2 = 2) := by
  have h := B2_orderProfile_rng s1 s2 ts te mt m e he
  simp only [B2_Rng, neg_one_mul] at h
  exact h

example : (2, 1, 1) ∈ coincProfile [1, 4] [2, 5] 0 6 0 0 := by decide +kernel
example : (2, -1, 1) ∈ orderProfile [2, 5] [1, 4] 0 6 0 0 := by decide +kernel

/-! ### sums and ratios -/

theorem B2_qsum_rng (s : Q) (l : List (Q × Q × Q)) (h : ∀ e ∈ l, B2_Rng s e) :
    s * qsum (l.map (·.2.2)) ≤ qsum (l.map (·.2.1)) ∧
      qsum (l.map (·.2.1)) ≤ qsum (l.map (·.2.2)) ∧ 0 ≤ qsum (l.map (·.2.2)) := by
  induction l with
  | nil => simp [qsum]
  | cons e r ih =>
    have he := h e List.mem_cons_self
    have hr := ih (fun x hx => h x (List.mem_cons_of_mem _ hx))
    simp only [List.map_cons, qsum]
    have hp : (0 : Q) ≤ e.2.2 := by rcases he.2.2 with h1 | h1 <;> rw [h1] <;> norm_num
    refine ⟨?_, ?_, ?_⟩
    · rw [mul_add]; linarith [he.1, hr.1]
    · linarith [he.2.1, hr.2.1]
    · linarith [hr.2.2]

theorem B2_ratio_rng (s c mp : Q) (hs : s ≤ 1) (h1 : s * mp ≤ c) (h2 : c ≤ mp) (h0 : 0 ≤ mp) :
    s ≤ (if mp = 0 then 1 else c / mp) ∧ (if mp = 0 then 1 else c / mp) ≤ 1 := by
  split_ifs with h
  · exact ⟨hs, le_refl _⟩
  · have hp : 0 < mp := lt_of_le_of_ne h0 (Ne.symm h)
    constructor
    · rw [le_div_iff₀ hp]; exact h1
    · rw [div_le_one hp]; exact h2

theorem B2_mem_interior (f : Disc) (e : Q × Q × Q) (he : e ∈ f.interior) : e ∈ f.e := by
  unfold Disc.interior at he
  exact List.mem_of_mem_tail (List.mem_of_mem_dropLast he)

theorem B2_integralAll_rng (s : Q) (f : Disc) (h : ∀ e ∈ f.e, B2_Rng s e) :
    s * f.integralAll.2 ≤ f.integralAll.1 ∧ f.integralAll.1 ≤ f.integralAll.2 ∧
      0 ≤ f.integralAll.2 :=
  B2_qsum_rng s f.interior (fun e he => h e (B2_mem_interior f e he))

theorem B2_integral_rng (s : Q) (f : Disc) (h : ∀ e ∈ f.e, B2_Rng s e) (a b : Q) (vm : Q × Q)
    (hv : f.integral a b = some vm) : s * vm.2 ≤ vm.1 ∧ vm.1 ≤ vm.2 ∧ 0 ≤ vm.2 := by
  unfold Disc.integral at hv
  simp only at hv
  split_ifs at hv
  rw [Option.some.injEq] at hv
  rw [← hv]
  apply B2_qsum_rng s
  intro e he
  exact h e (List.mem_of_mem_drop (List.mem_of_mem_take he))

/-- the pair (Σ values, Σ multiplicities) returned for a spike-train-order pair -/
theorem B2_orderValues_rng (kw : Kw) (a b : Train) :
    -(orderValues kw a b).2 ≤ (orderValues kw a b).1 ∧
      (orderValues kw a b).1 ≤ (orderValues kw a b).2 ∧ 0 ≤ (orderValues kw a b).2 := by
  have h := B2_integralAll_rng (-1) (orderProfileBi { kw with recon := true } a b)
    (by intro e he; exact B2_orderProfile_rng _ _ _ _ _ _ e he)
  rw [neg_one_mul] at h
  exact h

/-- the normalised spike-train order of two trains lies in `[-1, 1]` -/
theorem B2_spikeTrainOrderBi_range (kw : Kw) (a b : Train) :
    -1 ≤ spikeTrainOrderBi kw true a b ∧ spikeTrainOrderBi kw true a b ≤ 1 := by
  have h := B2_orderValues_rng kw a b
  unfold spikeTrainOrderBi
  simp only [if_true]
  exact B2_ratio_rng (-1) _ _ (by norm_num) (by rw [neg_one_mul]; exact h.1) h.2.1 h.2.2


/-- the multivariate spike-train order (synfire indicator) lies in `[-1, 1]` -/
theorem B2_spikeTrainOrderMulti_range (kw : Kw) (idx : Option (List Nat)) (L : List Train) :
    -1 ≤ spikeTrainOrderMulti kw idx L ∧ spikeTrainOrderMulti kw idx L ≤ 1 := by
  unfold spikeTrainOrderMulti
  simp only
  generalize pairsOf (resolveIdx idx (prep kw L).length) = pairs
  have key : ∀ (ps : List (Nat × Nat)) (acc : Q × Q),
      (-acc.2 ≤ acc.1 ∧ acc.1 ≤ acc.2 ∧ 0 ≤ acc.2) →
      let tot := ps.foldl (fun acc p =>
        ((acc.1 + (orderValues kw (tr (prep kw L) p.1) (tr (prep kw L) p.2)).1,
          acc.2 + (orderValues kw (tr (prep kw L) p.1) (tr (prep kw L) p.2)).2) : Q × Q)) acc
      (-tot.2 ≤ tot.1 ∧ tot.1 ≤ tot.2 ∧ 0 ≤ tot.2) := by
    intro ps
    induction ps with
    | nil => intro acc h; exact h
    | cons p r ih =>
      intro acc h
      simp only [List.foldl_cons]
      apply ih
      have hv := B2_orderValues_rng kw (tr (prep kw L) p.1) (tr (prep kw L) p.2)
      simp only
      exact ⟨by linarith [h.1, hv.1], by linarith [h.2.1, hv.2.1], by linarith [h.2.2, hv.2.2]⟩
  have h := key pairs (0, 0) (by simp)
  simp only at h
  exact B2_ratio_rng (-1) _ _ (by norm_num) (by rw [neg_one_mul]; exact h.1) h.2.1 h.2.2

/-- (Σ coincidence values, Σ multiplicities) of a SPIKE-Sync pair, for any accepted interval -/
theorem B2_syncValues_rng (kw : Kw) (a b : Train) (vm : Q × Q) (h : syncValues kw a b = some vm) :
    0 ≤ vm.1 ∧ vm.1 ≤ vm.2 ∧ 0 ≤ vm.2 := by
  have hr : ∀ e ∈ (syncProfileBi kw a b).e, B2_Rng 0 e := by
    intro e he; exact B2_coincProfile_rng _ _ _ _ _ _ e he
  unfold syncValues discIntegralKw at h
  cases hi : kw.interval with
  | none =>
    rw [hi] at h
    simp only [Option.some.injEq] at h
    have := B2_integralAll_rng 0 _ hr
    rw [h, zero_mul] at this
    exact this
  | some ab =>
    rw [hi] at h
    obtain ⟨x, y⟩ := ab
    have := B2_integral_rng 0 _ hr x y vm h
    rw [zero_mul] at this
    exact this

/-- SPIKE-Sync of two trains lies in `[0, 1]` (whenever the interval is accepted) -/
theorem B2_spikeSyncBi_range (kw : Kw) (a b : Train) (r : Q) (h : spikeSyncBi kw a b = some r) :
    0 ≤ r ∧ r ≤ 1 := by
  unfold spikeSyncBi at h
  cases hv : syncValues kw a b with
  | none => rw [hv] at h; simp at h
  | some vm =>
    rw [hv] at h
    simp only [Option.map_some, Option.some.injEq] at h
    have hr := B2_syncValues_rng kw a b vm hv
    rw [← h]
    unfold syncRatio
    exact B2_ratio_rng 0 _ _ (by norm_num) (by rw [zero_mul]; exact hr.1) hr.2.1 hr.2.2

example : spikeSyncBi { recon := false } ⟨[1, 4], 0, 6⟩ ⟨[2, 5], 0, 6⟩ = some 1 := by decide +kernel

theorem B2_sumOpt2_rng (l : List (Option (Q × Q)))
    (h : ∀ o ∈ l, ∀ vm, o = some vm → 0 ≤ vm.1 ∧ vm.1 ≤ vm.2 ∧ 0 ≤ vm.2) :
    ∀ tot, sumOpt2 l = some tot → 0 ≤ tot.1 ∧ tot.1 ≤ tot.2 ∧ 0 ≤ tot.2 := by
  induction l with
  | nil =>
    intro tot ht
    simp only [sumOpt2, Option.some.injEq] at ht
    rw [← ht]; simp
  | cons o r ih =>
    intro tot ht
    cases o with
    | none => simp [sumOpt2] at ht
    | some v =>
      simp only [sumOpt2] at ht
      cases hs : sumOpt2 r with
      | none => rw [hs] at ht; simp at ht
      | some sr =>
        rw [hs] at ht
        simp only [Option.map_some, Option.some.injEq] at ht
        have h1 := h (some v) List.mem_cons_self v rfl
        have h2 := ih (fun o ho => h o (List.mem_cons_of_mem _ ho)) sr hs
        rw [← ht]
        exact ⟨by linarith [h1.1, h2.1], by linarith [h1.2.1, h2.2.1], by linarith [h1.2.2, h2.2.2]⟩

/-- multivariate SPIKE-Sync lies in `[0, 1]` -/
theorem B2_spikeSyncMulti_range (kw : Kw) (idx : Option (List Nat)) (L : List Train) (r : Q)
    (h : spikeSyncMulti kw idx L = some r) : 0 ≤ r ∧ r ≤ 1 := by
  unfold spikeSyncMulti at h
  simp only at h
  cases hv : sumOpt2 ((pairsOf (resolveIdx idx (prep kw L).length)).map fun p =>
      syncValues kw.noRecon (tr (prep kw L) p.1) (tr (prep kw L) p.2)) with
  | none => rw [hv] at h; simp at h
  | some tot =>
    rw [hv] at h
    simp only [Option.map_some, Option.some.injEq] at h
    have hr := B2_sumOpt2_rng _ (by
      intro o ho vm hvm
      obtain ⟨p, _, hp⟩ := List.mem_map.mp ho
      exact B2_syncValues_rng kw.noRecon _ _ vm (hp.trans hvm)) tot hv
    rw [← h]
    unfold syncRatio
    exact B2_ratio_rng 0 _ _ (by norm_num) (by rw [zero_mul]; exact hr.1) hr.2.1 hr.2.2

/-! ## 3. the directionality scan -/

/-- one step of `dirLoop`: the spike `a` of one train is consumed and tested against the newest
    consumed spike of the other train (`k`); returns (own values, values of the other train) -/
def B2_dirStep (a : Q) (k : List Q) (tau : Q) (dOwn dOther : List Q) : List Q × List Q :=
  match k with
  | j :: _ => if a - j < tau then ((-1) :: dOwn, setHead 1 dOther) else (0 :: dOwn, dOther)
  | [] => (0 :: dOwn, dOther)

theorem B2_dirLoop_eq2 (tm m : Q) (k1 k2 : List Q) (a : Q) (r1' : List Q) (d1 d2 : List Q) :
    dirLoop tm m k1 (a :: r1') k2 [] d1 d2
      = dirLoop tm m (a :: k1) r1' k2 []
          (B2_dirStep a k2 (tauAt (a :: k1) r1' k2 [] tm m) d1 d2).1
          (B2_dirStep a k2 (tauAt (a :: k1) r1' k2 [] tm m) d1 d2).2 := by
  cases k2 with
  | nil => rw [dirLoop]; rfl
  | cons j t => rw [dirLoop]; simp only [B2_dirStep]; split_ifs <;> rfl

theorem B2_dirLoop_eq3 (tm m : Q) (k1 k2 : List Q) (b : Q) (r2' : List Q) (d1 d2 : List Q) :
    dirLoop tm m k1 [] k2 (b :: r2') d1 d2
      = dirLoop tm m k1 [] (b :: k2) r2'
          (B2_dirStep b k1 (tauAt k1 [] (b :: k2) r2' tm m) d2 d1).2
          (B2_dirStep b k1 (tauAt k1 [] (b :: k2) r2' tm m) d2 d1).1 := by
  cases k1 with
  | nil => rw [dirLoop]; rfl
  | cons j t => rw [dirLoop]; simp only [B2_dirStep]; split_ifs <;> rfl

theorem B2_dirLoop_eq4 (tm m : Q) (k1 k2 : List Q) (a : Q) (r1' : List Q) (b : Q) (r2' : List Q)
    (d1 d2 : List Q) (hab : a < b) :
    dirLoop tm m k1 (a :: r1') k2 (b :: r2') d1 d2
      = dirLoop tm m (a :: k1) r1' k2 (b :: r2')
          (B2_dirStep a k2 (tauAt (a :: k1) r1' k2 (b :: r2') tm m) d1 d2).1
          (B2_dirStep a k2 (tauAt (a :: k1) r1' k2 (b :: r2') tm m) d1 d2).2 := by
  cases k2 with
  | nil => rw [dirLoop, if_pos hab]; rfl
  | cons j t => rw [dirLoop, if_pos hab]; simp only [B2_dirStep]; split_ifs <;> rfl

theorem B2_dirLoop_eq5 (tm m : Q) (k1 k2 : List Q) (a : Q) (r1' : List Q) (b : Q) (r2' : List Q)
    (d1 d2 : List Q) (hab : ¬ a < b) (hba : b < a) :
    dirLoop tm m k1 (a :: r1') k2 (b :: r2') d1 d2
      = dirLoop tm m k1 (a :: r1') (b :: k2) r2'
          (B2_dirStep b k1 (tauAt k1 (a :: r1') (b :: k2) r2' tm m) d2 d1).2
          (B2_dirStep b k1 (tauAt k1 (a :: r1') (b :: k2) r2' tm m) d2 d1).1 := by
  cases k1 with
  | nil => rw [dirLoop, if_neg hab, if_pos hba]; rfl
  | cons j t => rw [dirLoop, if_neg hab, if_pos hba]; simp only [B2_dirStep]; split_ifs <;> rfl

theorem B2_dirLoop_eq6 (tm m : Q) (k1 k2 : List Q) (a : Q) (r1' : List Q) (b : Q) (r2' : List Q)
    (d1 d2 : List Q) (hab : ¬ a < b) (hba : ¬ b < a) :
    dirLoop tm m k1 (a :: r1') k2 (b :: r2') d1 d2
      = dirLoop tm m (a :: k1) r1' (b :: k2) r2' (0 :: d1) (0 :: d2) := by
  rw [dirLoop, if_neg hab, if_neg hba]

/-- the step, trains exchanged -/
theorem B2_dirStep_swap (a : Q) (k1 r1 k2 r2 : List Q) (tm m : Q) (dOwn dOther : List Q)
    (h : ∀ x ∈ k2, x < a) :
    B2_dirStep a k2 (tauAt (a :: k1) r1 k2 r2 tm m) dOwn dOther
      = B2_dirStep a k2 (tauAt k2 r2 (a :: k1) r1 tm m) dOwn dOther := by
  cases k2 with
  | nil => rfl
  | cons j t =>
    rw [tauAt_swap a k1 r1 j t r2 tm m (ne_of_gt (h j List.mem_cons_self))]

/-- exchanging the trains exchanges the two value lists -/
theorem B2_dirLoop_swap (tm m : Q) (k1 r1 k2 r2 : List Q) :
    B2_Inv k1 r1 k2 r2 → ∀ d1 d2 : List Q,
      dirLoop tm m k2 r2 k1 r1 d2 d1
        = ((dirLoop tm m k1 r1 k2 r2 d1 d2).2, (dirLoop tm m k1 r1 k2 r2 d1 d2).1) := by
  induction k1, r1, k2, r2 using B2_merge_induct with
  | nil k1 k2 => intro _ d1 d2; simp only [dirLoop]
  | left k1 a r1 k2 ih =>
    intro h d1 d2
    have hk : ∀ x ∈ k2, x < a := fun x hx => h.c21 x hx a List.mem_cons_self
    rw [B2_dirLoop_eq2, B2_dirLoop_eq3,
      ← ih (h.step1 (fun _ hy => absurd hy List.not_mem_nil)),
      B2_dirStep_swap a k1 r1 k2 [] tm m d1 d2 hk]
  | right k1 k2 b r2 ih =>
    intro h d1 d2
    have hk : ∀ x ∈ k1, x < b := fun x hx => h.c12 x hx b List.mem_cons_self
    rw [B2_dirLoop_eq2, B2_dirLoop_eq3,
      ← ih (h.step2 (fun _ hy => absurd hy List.not_mem_nil)),
      B2_dirStep_swap b k2 r2 k1 [] tm m d2 d1 hk]
  | lt k1 a r1 k2 b r2 hab ih =>
    intro h d1 d2
    have hk : ∀ x ∈ k2, x < a := fun x hx => h.c21 x hx a List.mem_cons_self
    rw [B2_dirLoop_eq4 _ _ _ _ _ _ _ _ _ _ hab,
      B2_dirLoop_eq5 _ _ _ _ _ _ _ _ _ _ (not_lt.mpr (le_of_lt hab)) hab,
      ← ih (h.step1 (B2_lt_of_lt_head h.s2 hab)),
      B2_dirStep_swap a k1 r1 k2 (b :: r2) tm m d1 d2 hk]
  | gt k1 a r1 k2 b r2 hab hba ih =>
    intro h d1 d2
    have hk : ∀ x ∈ k1, x < b := fun x hx => h.c12 x hx b List.mem_cons_self
    rw [B2_dirLoop_eq5 _ _ _ _ _ _ _ _ _ _ hab hba,
      B2_dirLoop_eq4 _ _ _ _ _ _ _ _ _ _ hba,
      ← ih (h.step2 (B2_lt_of_lt_head h.s1 hba)),
      B2_dirStep_swap b k2 r2 k1 (a :: r1) tm m d2 d1 hk]
  | eq k1 a r1 k2 b r2 hab hba ih =>
    intro h d1 d2
    rw [B2_dirLoop_eq6 _ _ _ _ _ _ _ _ _ _ hab hba, B2_dirLoop_eq6 _ _ _ _ _ _ _ _ _ _ hba hab,
      ← ih (h.step12 hab hba)]

/-- the directionality profile of (B, A) is that of (A, B) with the two value lists exchanged -/
theorem dirProfile_swap (s1 s2 : List Q) (ts te mt m : Q)
    (h1 : s1.Pairwise (· < ·)) (h2 : s2.Pairwise (· < ·)) :
    dirProfile s2 s1 ts te mt m
      = ((dirProfile s1 s2 ts te mt m).2, (dirProfile s1 s2 ts te mt m).1) := by
  unfold dirProfile
  simp only
  rw [B2_dirLoop_swap _ m [] s1 [] s2 (B2_Inv.init h1 h2) [] []]

example : dirProfile [2, 5] [1, 4] 0 6 0 0
    = ((dirProfile [1, 4] [2, 5] 0 6 0 0).2, (dirProfile [1, 4] [2, 5] 0 6 0 0).1) :=
  dirProfile_swap _ _ 0 6 0 0 (by decide) (by decide)

/-! ### the values are -1, 0 or 1 -/

def B2_Tri (v : Q) : Prop := v = -1 ∨ v = 0 ∨ v = 1

theorem B2_setHead_tri (d : List Q) (h : ∀ v ∈ d, B2_Tri v) : ∀ v ∈ setHead 1 d, B2_Tri v := by
  cases d with
  | nil => exact h
  | cons x r =>
    intro v hv
    simp only [setHead] at hv
    rcases List.mem_cons.mp hv with rfl | hv
    · exact Or.inr (Or.inr rfl)
    · exact h v (List.mem_cons_of_mem _ hv)

theorem B2_dirStep_tri (a : Q) (k : List Q) (tau : Q) (dOwn dOther : List Q)
    (h1 : ∀ v ∈ dOwn, B2_Tri v) (h2 : ∀ v ∈ dOther, B2_Tri v) :
    (∀ v ∈ (B2_dirStep a k tau dOwn dOther).1, B2_Tri v) ∧
      (∀ v ∈ (B2_dirStep a k tau dOwn dOther).2, B2_Tri v) := by
  have h0 : ∀ v ∈ (0 : Q) :: dOwn, B2_Tri v := by
    intro v hv
    rcases List.mem_cons.mp hv with rfl | hv
    · exact Or.inr (Or.inl rfl)
    · exact h1 v hv
  have hm : ∀ v ∈ (-1 : Q) :: dOwn, B2_Tri v := by
    intro v hv
    rcases List.mem_cons.mp hv with rfl | hv
    · exact Or.inl rfl
    · exact h1 v hv
  cases k with
  | nil => exact ⟨h0, h2⟩
  | cons j t =>
    simp only [B2_dirStep]
    split_ifs
    · exact ⟨hm, B2_setHead_tri _ h2⟩
    · exact ⟨h0, h2⟩

theorem B2_dirLoop_tri (tm m : Q) (k1 r1 k2 r2 : List Q) :
    ∀ d1 d2 : List Q, (∀ v ∈ d1, B2_Tri v) → (∀ v ∈ d2, B2_Tri v) →
      (∀ v ∈ (dirLoop tm m k1 r1 k2 r2 d1 d2).1, B2_Tri v) ∧
        (∀ v ∈ (dirLoop tm m k1 r1 k2 r2 d1 d2).2, B2_Tri v) := by
  induction k1, r1, k2, r2 using B2_merge_induct with
  | nil k1 k2 => intro d1 d2 h1 h2; simp only [dirLoop]; exact ⟨h1, h2⟩
  | left k1 a r1 k2 ih =>
    intro d1 d2 h1 h2
    rw [B2_dirLoop_eq2]
    have hs := B2_dirStep_tri a k2 (tauAt (a :: k1) r1 k2 [] tm m) d1 d2 h1 h2
    exact ih _ _ hs.1 hs.2
  | right k1 k2 b r2 ih =>
    intro d1 d2 h1 h2
    rw [B2_dirLoop_eq3]
    have hs := B2_dirStep_tri b k1 (tauAt k1 [] (b :: k2) r2 tm m) d2 d1 h2 h1
    exact ih _ _ hs.2 hs.1
  | lt k1 a r1 k2 b r2 hab ih =>
    intro d1 d2 h1 h2
    rw [B2_dirLoop_eq4 _ _ _ _ _ _ _ _ _ _ hab]
    have hs := B2_dirStep_tri a k2 (tauAt (a :: k1) r1 k2 (b :: r2) tm m) d1 d2 h1 h2
    exact ih _ _ hs.1 hs.2
  | gt k1 a r1 k2 b r2 hab hba ih =>
    intro d1 d2 h1 h2
    rw [B2_dirLoop_eq5 _ _ _ _ _ _ _ _ _ _ hab hba]
    have hs := B2_dirStep_tri b k1 (tauAt k1 (a :: r1) (b :: k2) r2 tm m) d2 d1 h2 h1
    exact ih _ _ hs.2 hs.1
  | eq k1 a r1 k2 b r2 hab hba ih =>
    intro d1 d2 h1 h2
    rw [B2_dirLoop_eq6 _ _ _ _ _ _ _ _ _ _ hab hba]
    apply ih
    · intro v hv
      rcases List.mem_cons.mp hv with rfl | hv
      · exact Or.inr (Or.inl rfl)
      · exact h1 v hv
    · intro v hv
      rcases List.mem_cons.mp hv with rfl | hv
      · exact Or.inr (Or.inl rfl)
      · exact h2 v hv

/-- every directionality value is -1, 0 or 1 -/
theorem B2_dirProfile_values (s1 s2 : List Q) (ts te mt m : Q) :
    (∀ v ∈ (dirProfile s1 s2 ts te mt m).1, v = -1 ∨ v = 0 ∨ v = 1) ∧
      (∀ v ∈ (dirProfile s1 s2 ts te mt m).2, v = -1 ∨ v = 0 ∨ v = 1) := by
  have h := B2_dirLoop_tri (trueMax ts te mt) m [] s1 [] s2 [] []
    (fun _ hv => absurd hv List.not_mem_nil) (fun _ hv => absurd hv List.not_mem_nil)
  unfold dirProfile
  simp only [List.mem_reverse]
  exact h

/-! ### bounds of the window by the neighbouring intervals -/

/-- the window of a spike `a` tested against an earlier spike `j` of the other train is at most
    half the interval back to the own predecessor `i` -/
theorem B2_tauAt_le_prev1 (a i : Q) (k1' r1 : List Q) (j : Q) (k2' r2 : List Q) (tm m : Q)
    (hja : j < a) : tauAt (a :: i :: k1') r1 (j :: k2') r2 tm m ≤ (a - i) / 2 := by
  unfold tauAt getTau
  simp only [List.head?_cons, List.tail_cons]
  have h1 : tauFirst (some a) (some j) = false := by simp [tauFirst, hja]
  simp only [h1, Bool.false_eq_true, if_false]
  exact le_trans (min_le_left _ _) (le_trans (min_le_left _ _) (interp_le_right _ _ _))

/-- … and at most half the interval from `j` to its successor `b` -/
theorem B2_tauAt_le_next2 (a : Q) (k1 r1 : List Q) (j : Q) (k2' : List Q) (b : Q) (r2' : List Q)
    (tm m : Q) (hja : j < a) : tauAt (a :: k1) r1 (j :: k2') (b :: r2') tm m ≤ (b - j) / 2 := by
  unfold tauAt getTau
  simp only [List.head?_cons, List.tail_cons]
  have h1 : tauFirst (some a) (some j) = false := by simp [tauFirst, hja]
  simp only [h1, Bool.false_eq_true, if_false]
  exact le_trans (min_le_left _ _) (le_trans (min_le_right _ _) (interp_le_right _ _ _))

/-! ### every coincidence writes +1 and -1 -/

/-- invariant of `dirLoop`: cursor invariant, each train increasing across the cursor, value lists
    parallel to the consumed spikes, and: a consumed spike with a non-zero value cannot coincide
    with the next spike of the other train (`p1`, `p2`; coincidences are one-to-one) -/
structure B2_DInv (k1 r1 k2 r2 d1 d2 : List Q) : Prop where
  inv : B2_Inv k1 r1 k2 r2
  o1 : ∀ x ∈ k1, ∀ y ∈ r1, x < y
  o2 : ∀ x ∈ k2, ∀ y ∈ r2, x < y
  l1 : d1.length = k1.length
  l2 : d2.length = k2.length
  p1 : ∀ i ∈ k1.head?, ∀ v ∈ d1.head?, v ≠ 0 →
    ∃ j ∈ k2.head?, (i < j ∨ ∀ b ∈ r2.head?, 2 * (i - j) < b - j)
  p2 : ∀ j ∈ k2.head?, ∀ v ∈ d2.head?, v ≠ 0 →
    ∃ i ∈ k1.head?, (j < i ∨ ∀ a ∈ r1.head?, 2 * (j - i) < a - i)

theorem B2_DInv.symm {k1 r1 k2 r2 d1 d2 : List Q} (h : B2_DInv k1 r1 k2 r2 d1 d2) :
    B2_DInv k2 r2 k1 r1 d2 d1 :=
  ⟨h.inv.symm, h.o2, h.o1, h.l2, h.l1, h.p2, h.p1⟩

theorem B2_DInv.init {s1 s2 : List Q} (h1 : s1.Pairwise (· < ·)) (h2 : s2.Pairwise (· < ·)) :
    B2_DInv [] s1 [] s2 [] [] :=
  ⟨B2_Inv.init h1 h2, fun _ hx => absurd hx List.not_mem_nil,
    fun _ hx => absurd hx List.not_mem_nil, rfl, rfl,
    fun _ hi => by simp at hi, fun _ hi => by simp at hi⟩

theorem B2_o_step {k r : List Q} {a : Q} (s : (a :: r).Pairwise (· < ·))
    (o : ∀ x ∈ k, ∀ y ∈ a :: r, x < y) : ∀ x ∈ a :: k, ∀ y ∈ r, x < y := by
  intro x hx y hy
  rcases List.mem_cons.mp hx with rfl | hx
  · exact (List.pairwise_cons.mp s).1 y hy
  · exact o x hx y (List.mem_cons_of_mem _ hy)

theorem B2_o_tail {k r : List Q} {a : Q} (o : ∀ x ∈ k, ∀ y ∈ a :: r, x < y) :
    ∀ x ∈ k, ∀ y ∈ r, x < y := fun x hx y hy => o x hx y (List.mem_cons_of_mem _ hy)

/-- train 1 advances alone: the invariant is kept and the sum of all values is unchanged -/
theorem B2_DInv.step1 (tm m : Q) {k1 r1 k2 r2 d1 d2 : List Q} {a : Q}
    (h : B2_DInv k1 (a :: r1) k2 r2 d1 d2) (hlt : ∀ y ∈ r2, a < y) :
    B2_DInv (a :: k1) r1 k2 r2
        (B2_dirStep a k2 (tauAt (a :: k1) r1 k2 r2 tm m) d1 d2).1
        (B2_dirStep a k2 (tauAt (a :: k1) r1 k2 r2 tm m) d1 d2).2 ∧
      qsum (B2_dirStep a k2 (tauAt (a :: k1) r1 k2 r2 tm m) d1 d2).1
        + qsum (B2_dirStep a k2 (tauAt (a :: k1) r1 k2 r2 tm m) d1 d2).2 = qsum d1 + qsum d2 := by
  have hinv := h.inv.step1 hlt
  have ho1 := B2_o_step h.inv.s1 h.o1
  cases k2 with
  | nil =>
    refine ⟨⟨hinv, ho1, h.o2, by simp [B2_dirStep, h.l1], h.l2, ?_, ?_⟩, ?_⟩
    · intro i _ v hv hv0
      simp only [B2_dirStep, List.head?_cons, Option.mem_def, Option.some.injEq] at hv
      exact absurd hv.symm hv0
    · intro j hj; simp at hj
    · simp [B2_dirStep, qsum]
  | cons j k2' =>
    have hja : j < a := h.inv.c21 j List.mem_cons_self a List.mem_cons_self
    cases d2 with
    | nil => have := h.l2; simp at this
    | cons w d2' =>
      by_cases ht : a - j < tauAt (a :: k1) r1 (j :: k2') r2 tm m
      · simp only [B2_dirStep, if_pos ht, setHead]
        -- the overwritten value is 0
        have hw : w = 0 := by
          by_contra hw0
          obtain ⟨i, hi, hc⟩ := h.p2 j (by simp) w (by simp) hw0
          cases k1 with
          | nil => simp at hi
          | cons i' k1' =>
            simp only [List.head?_cons, Option.mem_def, Option.some.injEq] at hi
            subst hi
            have hb := B2_tauAt_le_prev1 a i' k1' r1 j k2' r2 tm m hja
            have hia : i' < a := h.o1 i' List.mem_cons_self a List.mem_cons_self
            rcases hc with hc | hc
            · linarith
            · have := hc a (by simp)
              linarith
        subst hw
        refine ⟨⟨hinv, ho1, h.o2, by simp [h.l1], by simpa using h.l2, ?_, ?_⟩, ?_⟩
        · intro i hi v _ _
          simp only [List.head?_cons, Option.mem_def, Option.some.injEq] at hi
          subst hi
          refine ⟨j, by simp, Or.inr ?_⟩
          intro b hb
          cases r2 with
          | nil => simp at hb
          | cons b' r2' =>
            simp only [List.head?_cons, Option.mem_def, Option.some.injEq] at hb
            subst hb
            have := B2_tauAt_le_next2 a k1 r1 j k2' b' r2' tm m hja
            linarith
        · intro j' hj' v _ _
          simp only [List.head?_cons, Option.mem_def, Option.some.injEq] at hj'
          subst hj'
          exact ⟨a, by simp, Or.inl hja⟩
        · simp only [qsum]; ring
      · simp only [B2_dirStep, if_neg ht]
        refine ⟨⟨hinv, ho1, h.o2, by simp [h.l1], h.l2, ?_, ?_⟩, ?_⟩
        · intro i _ v hv hv0
          simp only [List.head?_cons, Option.mem_def, Option.some.injEq] at hv
          exact absurd hv.symm hv0
        · intro j' hj' v _ _
          simp only [List.head?_cons, Option.mem_def, Option.some.injEq] at hj'
          subst hj'
          exact ⟨a, by simp, Or.inl hja⟩
        · simp only [qsum]; ring

/-- train 2 advances alone -/
theorem B2_DInv.step2 (tm m : Q) {k1 r1 k2 r2 d1 d2 : List Q} {b : Q}
    (h : B2_DInv k1 r1 k2 (b :: r2) d1 d2) (hlt : ∀ y ∈ r1, b < y) :
    B2_DInv k1 r1 (b :: k2) r2
        (B2_dirStep b k1 (tauAt k1 r1 (b :: k2) r2 tm m) d2 d1).2
        (B2_dirStep b k1 (tauAt k1 r1 (b :: k2) r2 tm m) d2 d1).1 ∧
      qsum (B2_dirStep b k1 (tauAt k1 r1 (b :: k2) r2 tm m) d2 d1).2
        + qsum (B2_dirStep b k1 (tauAt k1 r1 (b :: k2) r2 tm m) d2 d1).1 = qsum d1 + qsum d2 := by
  have hk : ∀ x ∈ k1, x < b := fun x hx => h.inv.c12 x hx b List.mem_cons_self
  have hs := B2_DInv.step1 tm m h.symm hlt
  rw [B2_dirStep_swap b k2 r2 k1 r1 tm m d2 d1 hk] at hs
  exact ⟨hs.1.symm, by rw [add_comm, hs.2, add_comm]⟩

/-- both trains advance (equal spikes) -/
theorem B2_DInv.step12 {k1 r1 k2 r2 d1 d2 : List Q} {a b : Q}
    (h : B2_DInv k1 (a :: r1) k2 (b :: r2) d1 d2) (hab : ¬ a < b) (hba : ¬ b < a) :
    B2_DInv (a :: k1) r1 (b :: k2) r2 (0 :: d1) (0 :: d2) := by
  refine ⟨h.inv.step12 hab hba, B2_o_step h.inv.s1 h.o1, B2_o_step h.inv.s2 h.o2,
    by simp [h.l1], by simp [h.l2], ?_, ?_⟩
  · intro i _ v hv hv0
    simp only [List.head?_cons, Option.mem_def, Option.some.injEq] at hv
    exact absurd hv.symm hv0
  · intro i _ v hv hv0
    simp only [List.head?_cons, Option.mem_def, Option.some.injEq] at hv
    exact absurd hv.symm hv0

theorem B2_dirLoop_sum (tm m : Q) (k1 r1 k2 r2 : List Q) :
    ∀ d1 d2 : List Q, B2_DInv k1 r1 k2 r2 d1 d2 →
      qsum (dirLoop tm m k1 r1 k2 r2 d1 d2).1 + qsum (dirLoop tm m k1 r1 k2 r2 d1 d2).2
        = qsum d1 + qsum d2 := by
  induction k1, r1, k2, r2 using B2_merge_induct with
  | nil k1 k2 => intro d1 d2 _; simp only [dirLoop]
  | left k1 a r1 k2 ih =>
    intro d1 d2 h
    have hs := B2_DInv.step1 tm m h (fun _ hy => absurd hy List.not_mem_nil)
    rw [B2_dirLoop_eq2, ih _ _ hs.1, hs.2]
  | right k1 k2 b r2 ih =>
    intro d1 d2 h
    have hs := B2_DInv.step2 tm m h (fun _ hy => absurd hy List.not_mem_nil)
    rw [B2_dirLoop_eq3, ih _ _ hs.1, hs.2]
  | lt k1 a r1 k2 b r2 hab ih =>
    intro d1 d2 h
    have hs := B2_DInv.step1 tm m h (B2_lt_of_lt_head h.inv.s2 hab)
    rw [B2_dirLoop_eq4 _ _ _ _ _ _ _ _ _ _ hab, ih _ _ hs.1, hs.2]
  | gt k1 a r1 k2 b r2 hab hba ih =>
    intro d1 d2 h
    have hs := B2_DInv.step2 tm m h (B2_lt_of_lt_head h.inv.s1 hba)
    rw [B2_dirLoop_eq5 _ _ _ _ _ _ _ _ _ _ hab hba, ih _ _ hs.1, hs.2]
  | eq k1 a r1 k2 b r2 hab hba ih =>
    intro d1 d2 h
    rw [B2_dirLoop_eq6 _ _ _ _ _ _ _ _ _ _ hab hba, ih _ _ (h.step12 hab hba)]
    simp only [qsum]; ring

theorem B2_qsum_reverse (l : List Q) : qsum l.reverse = qsum l := by
  induction l with
  | nil => rfl
  | cons a r ih => rw [List.reverse_cons, qsum_append, ih]; simp only [qsum]; ring

/-- the two value lists of a directionality profile cancel: every coincidence writes one +1 and
    one -1 (for strictly increasing trains coincidences are one-to-one, so no written value is
    ever overwritten by a different one) -/
theorem dirProfile_sum_zero (s1 s2 : List Q) (ts te mt m : Q)
    (h1 : s1.Pairwise (· < ·)) (h2 : s2.Pairwise (· < ·)) :
    qsum (dirProfile s1 s2 ts te mt m).1 + qsum (dirProfile s1 s2 ts te mt m).2 = 0 := by
  have h := B2_dirLoop_sum (trueMax ts te mt) m [] s1 [] s2 [] [] (B2_DInv.init h1 h2)
  unfold dirProfile
  simp only [B2_qsum_reverse]
  rw [h]; simp [qsum]

example : qsum (dirProfile [1, 4, 9, 10] [2, 5] 0 12 0 0).1
    + qsum (dirProfile [1, 4, 9, 10] [2, 5] 0 12 0 0).2 = 0 :=
  dirProfile_sum_zero _ _ 0 12 0 0 (by decide) (by decide)

/-- for an unsorted train a written value can be overwritten and the sum is not 0 -/
example : qsum (dirProfile [2] [2, 1, 1] 0 6 0 4).1 + qsum (dirProfile [2] [2, 1, 1] 0 6 0 4).2 ≠ 0 := by
  decide +kernel

/-! ## 5. the order profile and the directionality profile describe the same coincidences -/

/-- a successful test of `a` against the newest spike `j` of the other train: the value of `j` was
    still 0, and `j` is the newest spike of both trains -/
theorem B2_DInv.head_zero (tm m : Q) {k1 r1 k2' r2 d1 d2' : List Q} {a j w : Q}
    (h : B2_DInv k1 (a :: r1) (j :: k2') r2 d1 (w :: d2'))
    (ht : a - j < tauAt (a :: k1) r1 (j :: k2') r2 tm m) :
    w = 0 ∧ ∀ i ∈ k1.head?, i < j := by
  have hja : j < a := h.inv.c21 j List.mem_cons_self a List.mem_cons_self
  constructor
  · by_contra hw0
    obtain ⟨i, hi, hc⟩ := h.p2 j (by simp) w (by simp) hw0
    cases k1 with
    | nil => simp at hi
    | cons i' k1' =>
      simp only [List.head?_cons, Option.mem_def, Option.some.injEq] at hi
      subst hi
      have hb := B2_tauAt_le_prev1 a i' k1' r1 j k2' r2 tm m hja
      have hia : i' < a := h.o1 i' List.mem_cons_self a List.mem_cons_self
      rcases hc with hc | hc
      · linarith
      · have := hc a (by simp)
        linarith
  · intro i hi
    cases k1 with
    | nil => simp at hi
    | cons i' k1' =>
      simp only [List.head?_cons, Option.mem_def, Option.some.injEq] at hi
      subst hi
      have hb := B2_tauAt_le_prev1 a i' k1' r1 j k2' r2 tm m hja
      have hia : i' < a := h.o1 i' List.mem_cons_self a List.mem_cons_self
      linarith

/-- sum of the values of a list of profile entries -/
def B2_vs (out : List (Q × Q × Q)) : Q := qsum (out.map (·.2.1))

/-- link between the order scan (`v1 = -σ`, `v2 = σ`, `vt = 0`) and the directionality scan: the
    newest written entry carries (σ times) the directionality value of the newest consumed spike -/
def B2_J (σ : Q) (k1 k2 d1 d2 : List Q) (out : List (Q × Q × Q)) : Prop :=
  match out with
  | [] => k1 = [] ∧ k2 = []
  | e :: _ =>
    (∀ i ∈ k1.head?, (∀ j ∈ k2.head?, j < i) → ∃ v ∈ d1.head?, e.2.1 = σ * v) ∧
    (∀ j ∈ k2.head?, (∀ i ∈ k1.head?, i < j) → ∃ v ∈ d2.head?, e.2.1 = (-σ) * v)

theorem B2_J.symm {σ : Q} {k1 k2 d1 d2 : List Q} {out : List (Q × Q × Q)}
    (h : B2_J σ k1 k2 d1 d2 out) : B2_J (-σ) k2 k1 d2 d1 out := by
  cases out with
  | nil => exact ⟨h.2, h.1⟩
  | cons e o =>
    refine ⟨h.2, ?_⟩
    have h1 := h.1
    rw [neg_neg]
    exact h1

theorem B2_J.step1 (σ tm m : Q) {k1 r1 k2 r2 d1 d2 : List Q} {a : Q} {out : List (Q × Q × Q)}
    (h : B2_DInv k1 (a :: r1) k2 r2 d1 d2) (hJ : B2_J σ k1 k2 d1 d2 out) :
    B2_J σ (a :: k1) k2
        (B2_dirStep a k2 (tauAt (a :: k1) r1 k2 r2 tm m) d1 d2).1
        (B2_dirStep a k2 (tauAt (a :: k1) r1 k2 r2 tm m) d1 d2).2
        (scanOut (-σ) a k2 (tauAt (a :: k1) r1 k2 r2 tm m) out) ∧
      B2_vs (scanOut (-σ) a k2 (tauAt (a :: k1) r1 k2 r2 tm m) out)
          - σ * (qsum (B2_dirStep a k2 (tauAt (a :: k1) r1 k2 r2 tm m) d1 d2).1
                - qsum (B2_dirStep a k2 (tauAt (a :: k1) r1 k2 r2 tm m) d1 d2).2)
        = B2_vs out - σ * (qsum d1 - qsum d2) := by
  -- the step that writes a 0
  have hfail : B2_J σ (a :: k1) k2 (0 :: d1) d2 ((a, 0, 1) :: out) ∧
      B2_vs ((a, 0, 1) :: out) - σ * (qsum (0 :: d1) - qsum d2)
        = B2_vs out - σ * (qsum d1 - qsum d2) := by
    refine ⟨⟨?_, ?_⟩, ?_⟩
    · intro i _ _
      exact ⟨0, by simp, by simp⟩
    · intro j hj hall
      have hja : j < a := h.inv.c21 j (List.mem_of_mem_head? hj) a List.mem_cons_self
      exact absurd (hall a (by simp)) (not_lt.mpr (le_of_lt hja))
    · simp only [B2_vs, List.map_cons, qsum]; ring
  cases k2 with
  | nil => exact hfail
  | cons j k2' =>
    have hja : j < a := h.inv.c21 j List.mem_cons_self a List.mem_cons_self
    cases d2 with
    | nil => have := h.l2; simp at this
    | cons w d2' =>
      by_cases ht : a - j < tauAt (a :: k1) r1 (j :: k2') r2 tm m
      · obtain ⟨hw, hnew⟩ := h.head_zero tm m ht
        subst hw
        cases out with
        | nil => have := hJ.2; simp at this
        | cons e o =>
          obtain ⟨t, c, mp⟩ := e
          obtain ⟨v, hv, hc⟩ := hJ.2 j (by simp) hnew
          simp only [List.head?_cons, Option.mem_def, Option.some.injEq] at hv
          subst hv
          simp only [mul_zero] at hc
          subst hc
          simp only [B2_dirStep, scanOut, if_pos ht, setHead, markHead]
          refine ⟨⟨?_, ?_⟩, ?_⟩
          · intro i _ _
            exact ⟨-1, by simp, by simp⟩
          · intro j' hj' hall
            simp only [List.head?_cons, Option.mem_def, Option.some.injEq] at hj'
            subst hj'
            exact absurd (hall a (by simp)) (not_lt.mpr (le_of_lt hja))
          · simp only [B2_vs, List.map_cons, qsum]; ring
      · simp only [B2_dirStep, scanOut, if_neg ht]
        exact hfail

theorem B2_J.step2 (σ tm m : Q) {k1 r1 k2 r2 d1 d2 : List Q} {b : Q} {out : List (Q × Q × Q)}
    (h : B2_DInv k1 r1 k2 (b :: r2) d1 d2) (hJ : B2_J σ k1 k2 d1 d2 out) :
    B2_J σ k1 (b :: k2)
        (B2_dirStep b k1 (tauAt k1 r1 (b :: k2) r2 tm m) d2 d1).2
        (B2_dirStep b k1 (tauAt k1 r1 (b :: k2) r2 tm m) d2 d1).1
        (scanOut σ b k1 (tauAt k1 r1 (b :: k2) r2 tm m) out) ∧
      B2_vs (scanOut σ b k1 (tauAt k1 r1 (b :: k2) r2 tm m) out)
          - σ * (qsum (B2_dirStep b k1 (tauAt k1 r1 (b :: k2) r2 tm m) d2 d1).2
                - qsum (B2_dirStep b k1 (tauAt k1 r1 (b :: k2) r2 tm m) d2 d1).1)
        = B2_vs out - σ * (qsum d1 - qsum d2) := by
  have hk : ∀ x ∈ k1, x < b := fun x hx => h.inv.c12 x hx b List.mem_cons_self
  have hs := B2_J.step1 (-σ) tm m h.symm hJ.symm
  rw [B2_dirStep_swap b k2 r2 k1 r1 tm m d2 d1 hk,
    B2_scanOut_swap (-(-σ)) b k2 r2 k1 r1 tm m out hk, neg_neg] at hs
  refine ⟨?_, ?_⟩
  · have := hs.1.symm
    rw [neg_neg] at this
    exact this
  · have := hs.2
    linarith

theorem B2_J.step12 (σ : Q) {k1 k2 d1 d2 : List Q} {a b : Q} {out : List (Q × Q × Q)}
    (hab : ¬ a < b) (hba : ¬ b < a) :
    B2_J σ (a :: k1) (b :: k2) (0 :: d1) (0 :: d2) ((a, 0, 2) :: out) := by
  refine ⟨?_, ?_⟩
  · intro i hi hall
    simp only [List.head?_cons, Option.mem_def, Option.some.injEq] at hi
    subst hi
    exact absurd (hall b (by simp)) hba
  · intro j hj hall
    simp only [List.head?_cons, Option.mem_def, Option.some.injEq] at hj
    subst hj
    exact absurd (hall a (by simp)) hab

theorem B2_scan_dir (σ tm m : Q) (k1 r1 k2 r2 : List Q) :
    ∀ (d1 d2 : List Q) (out : List (Q × Q × Q)), B2_DInv k1 r1 k2 r2 d1 d2 →
      B2_J σ k1 k2 d1 d2 out →
      B2_vs (scanLoop (-σ) σ 0 tm m k1 r1 k2 r2 out)
          - σ * (qsum (dirLoop tm m k1 r1 k2 r2 d1 d2).1 - qsum (dirLoop tm m k1 r1 k2 r2 d1 d2).2)
        = B2_vs out - σ * (qsum d1 - qsum d2) := by
  induction k1, r1, k2, r2 using B2_merge_induct with
  | nil k1 k2 => intro d1 d2 out _ _; simp only [dirLoop, scanLoop]
  | left k1 a r1 k2 ih =>
    intro d1 d2 out h hJ
    have hd := B2_DInv.step1 tm m h (fun _ hy => absurd hy List.not_mem_nil)
    have hs := B2_J.step1 σ tm m h hJ
    rw [B2_dirLoop_eq2, scanLoop_eq2, ih _ _ _ hd.1 hs.1, hs.2]
  | right k1 k2 b r2 ih =>
    intro d1 d2 out h hJ
    have hd := B2_DInv.step2 tm m h (fun _ hy => absurd hy List.not_mem_nil)
    have hs := B2_J.step2 σ tm m h hJ
    rw [B2_dirLoop_eq3, scanLoop_eq3, ih _ _ _ hd.1 hs.1, hs.2]
  | lt k1 a r1 k2 b r2 hab ih =>
    intro d1 d2 out h hJ
    have hd := B2_DInv.step1 tm m h (B2_lt_of_lt_head h.inv.s2 hab)
    have hs := B2_J.step1 σ tm m h hJ
    rw [B2_dirLoop_eq4 _ _ _ _ _ _ _ _ _ _ hab, scanLoop_eq4 _ _ _ _ _ _ _ _ _ _ _ _ hab,
      ih _ _ _ hd.1 hs.1, hs.2]
  | gt k1 a r1 k2 b r2 hab hba ih =>
    intro d1 d2 out h hJ
    have hd := B2_DInv.step2 tm m h (B2_lt_of_lt_head h.inv.s1 hba)
    have hs := B2_J.step2 σ tm m h hJ
    rw [B2_dirLoop_eq5 _ _ _ _ _ _ _ _ _ _ hab hba, scanLoop_eq5 _ _ _ _ _ _ _ _ _ _ _ _ hab hba,
      ih _ _ _ hd.1 hs.1, hs.2]
  | eq k1 a r1 k2 b r2 hab hba ih =>
    intro d1 d2 out h hJ
    rw [B2_dirLoop_eq6 _ _ _ _ _ _ _ _ _ _ hab hba, scanLoop_eq6 _ _ _ _ _ _ _ _ _ _ _ _ hab hba,
      ih _ _ _ (h.step12 hab hba) (B2_J.step12 σ hab hba)]
    simp only [B2_vs, List.map_cons, qsum]; ring

/-! ### multiplicities: one per spike -/

theorem B2_scanOut_mp (v a : Q) (k : List Q) (tau : Q) (out : List (Q × Q × Q)) :
    qsum ((scanOut v a k tau out).map (·.2.2)) = qsum (out.map (·.2.2)) + 1 := by
  have hm : ∀ o : List (Q × Q × Q), (markHead v o).map (·.2.2) = o.map (·.2.2) := by
    intro o; cases o with
    | nil => rfl
    | cons e r => obtain ⟨t, c, mp⟩ := e; rfl
  cases k with
  | nil => simp only [scanOut, List.map_cons, qsum]; ring
  | cons j t =>
    simp only [scanOut]
    split_ifs
    · simp only [List.map_cons, hm, qsum]; ring
    · simp only [List.map_cons, qsum]; ring

theorem B2_scanLoop_mp (v1 v2 vt tm m : Q) (k1 r1 k2 r2 : List Q) :
    ∀ out : List (Q × Q × Q),
      qsum ((scanLoop v1 v2 vt tm m k1 r1 k2 r2 out).map (·.2.2))
        = qsum (out.map (·.2.2)) + (r1.length : Q) + (r2.length : Q) := by
  induction k1, r1, k2, r2 using B2_merge_induct with
  | nil k1 k2 => intro out; simp [scanLoop]
  | left k1 a r1 k2 ih =>
    intro out; rw [scanLoop_eq2, ih, B2_scanOut_mp]; simp only [List.length_cons]; push_cast; ring
  | right k1 k2 b r2 ih =>
    intro out; rw [scanLoop_eq3, ih, B2_scanOut_mp]; simp only [List.length_cons]; push_cast; ring
  | lt k1 a r1 k2 b r2 hab ih =>
    intro out; rw [scanLoop_eq4 _ _ _ _ _ _ _ _ _ _ _ _ hab, ih, B2_scanOut_mp]
    simp only [List.length_cons]; push_cast; ring
  | gt k1 a r1 k2 b r2 hab hba ih =>
    intro out; rw [scanLoop_eq5 _ _ _ _ _ _ _ _ _ _ _ _ hab hba, ih, B2_scanOut_mp]
    simp only [List.length_cons]; push_cast; ring
  | eq k1 a r1 k2 b r2 hab hba ih =>
    intro out; rw [scanLoop_eq6 _ _ _ _ _ _ _ _ _ _ _ _ hab hba, ih]
    simp only [List.map_cons, qsum, List.length_cons]; push_cast; ring

/-- the interior of a framed profile is the list of scan entries -/
theorem B2_interior_frame (ts te : Q) (l : List (Q × Q × Q)) :
    (Disc.mk (frameProfile ts te l)).interior = l := by
  cases l with
  | nil => simp [Disc.interior, frameProfile]
  | cons f r =>
    simp only [Disc.interior, frameProfile, List.cons_append, List.tail_cons]
    rw [← List.cons_append, List.dropLast_concat]

theorem B2_qsum_map_reverse {α} (g : α → Q) (l : List α) :
    qsum (l.reverse.map g) = qsum (l.map g) := by
  rw [List.map_reverse, B2_qsum_reverse]

/-- `integral(None)` of the order profile = (twice the un-normalised directionality of train 1,
    number of spikes of both trains) -/
theorem B2_orderProfile_integral (s1 s2 : List Q) (ts te mt m : Q)
    (h1 : s1.Pairwise (· < ·)) (h2 : s2.Pairwise (· < ·)) :
    (Disc.mk (orderProfile s1 s2 ts te mt m)).integralAll
      = (2 * qsum (dirProfile s1 s2 ts te mt m).1, (s1.length : Q) + (s2.length : Q)) := by
  have hv := B2_scan_dir 1 (trueMax ts te mt) m [] s1 [] s2 [] [] [] (B2_DInv.init h1 h2)
    ⟨rfl, rfl⟩
  have hz := B2_dirLoop_sum (trueMax ts te mt) m [] s1 [] s2 [] [] (B2_DInv.init h1 h2)
  have hm := B2_scanLoop_mp (-1) 1 0 (trueMax ts te mt) m [] s1 [] s2 []
  simp only [B2_vs, List.map_nil, qsum] at hv hz hm
  unfold orderProfile dirProfile Disc.integralAll
  rw [B2_interior_frame, B2_qsum_map_reverse, B2_qsum_map_reverse, B2_qsum_reverse, hm]
  refine Prod.ext ?_ ?_
  · simp only; linarith
  · simp only; ring

example : (Disc.mk (orderProfile [1, 4, 9, 10] [2, 5] 0 12 0 0)).integralAll
    = (2 * qsum (dirProfile [1, 4, 9, 10] [2, 5] 0 12 0 0).1, 6) := by
  rw [B2_orderProfile_integral _ _ 0 12 0 0 (by decide) (by decide)]; norm_num

/-! ### API level: spike-train order = 2 × directionality -/

theorem B2_setHead_length (v : Q) (d : List Q) : (setHead v d).length = d.length := by
  cases d <;> rfl

theorem B2_dirStep_length (a : Q) (k : List Q) (tau : Q) (dOwn dOther : List Q) :
    (B2_dirStep a k tau dOwn dOther).1.length = dOwn.length + 1 ∧
      (B2_dirStep a k tau dOwn dOther).2.length = dOther.length := by
  cases k with
  | nil => simp [B2_dirStep]
  | cons j t =>
    simp only [B2_dirStep]
    split_ifs <;> simp [B2_setHead_length]

theorem B2_dirLoop_length (tm m : Q) (k1 r1 k2 r2 : List Q) :
    ∀ d1 d2 : List Q,
      (dirLoop tm m k1 r1 k2 r2 d1 d2).1.length = d1.length + r1.length ∧
        (dirLoop tm m k1 r1 k2 r2 d1 d2).2.length = d2.length + r2.length := by
  induction k1, r1, k2, r2 using B2_merge_induct with
  | nil k1 k2 => intro d1 d2; simp [dirLoop]
  | left k1 a r1 k2 ih =>
    intro d1 d2
    have hs := B2_dirStep_length a k2 (tauAt (a :: k1) r1 k2 [] tm m) d1 d2
    rw [B2_dirLoop_eq2, (ih _ _).1, (ih _ _).2, hs.1, hs.2]
    simp only [List.length_cons, List.length_nil]; constructor <;> first | trivial | omega
  | right k1 k2 b r2 ih =>
    intro d1 d2
    have hs := B2_dirStep_length b k1 (tauAt k1 [] (b :: k2) r2 tm m) d2 d1
    rw [B2_dirLoop_eq3, (ih _ _).1, (ih _ _).2, hs.1, hs.2]
    simp only [List.length_cons, List.length_nil]; constructor <;> first | trivial | omega
  | lt k1 a r1 k2 b r2 hab ih =>
    intro d1 d2
    have hs := B2_dirStep_length a k2 (tauAt (a :: k1) r1 k2 (b :: r2) tm m) d1 d2
    rw [B2_dirLoop_eq4 _ _ _ _ _ _ _ _ _ _ hab, (ih _ _).1, (ih _ _).2, hs.1, hs.2]
    simp only [List.length_cons]; constructor <;> first | trivial | omega
  | gt k1 a r1 k2 b r2 hab hba ih =>
    intro d1 d2
    have hs := B2_dirStep_length b k1 (tauAt k1 (a :: r1) (b :: k2) r2 tm m) d2 d1
    rw [B2_dirLoop_eq5 _ _ _ _ _ _ _ _ _ _ hab hba, (ih _ _).1, (ih _ _).2, hs.1, hs.2]
    simp only [List.length_cons]; constructor <;> first | trivial | omega
  | eq k1 a r1 k2 b r2 hab hba ih =>
    intro d1 d2
    rw [B2_dirLoop_eq6 _ _ _ _ _ _ _ _ _ _ hab hba, (ih _ _).1, (ih _ _).2]
    simp only [List.length_cons]; constructor <;> first | trivial | omega

/-- one directionality value per spike -/
theorem B2_dirProfile_length (s1 s2 : List Q) (ts te mt m : Q) :
    (dirProfile s1 s2 ts te mt m).1.length = s1.length ∧
      (dirProfile s1 s2 ts te mt m).2.length = s2.length := by
  have h := B2_dirLoop_length (trueMax ts te mt) m [] s1 [] s2 [] []
  unfold dirProfile
  simpa using h

theorem B2_addLists_zero {α} (l : List α) : ∀ d : List Q, d.length = l.length →
    addLists (l.map fun _ => (0 : Q)) d = d := by
  induction l with
  | nil => intro d hd; cases d with
    | nil => rfl
    | cons x r => simp at hd
  | cons a r ih =>
    intro d hd
    cases d with
    | nil => simp at hd
    | cons x t =>
      simp only [List.map_cons, addLists, zero_add]
      rw [ih t (by simpa using hd)]

theorem B2_prep_prepBi (kw : Kw) (a b : Train) :
    prep { kw with recon := true } [(prepBi kw a b).1, (prepBi kw a b).2]
      = [(reconcileBi a b).1, (reconcileBi a b).2] := by
  cases h : kw.recon with
  | false => simp only [prep, prepBi, h, if_true, Bool.false_eq_true, if_false, reconcileBi_eq]
  | true =>
    simp only [prep, prepBi, h, if_true, reconcileBi_eq, reconcileBi_idem]

/-- the directionality values of a list that is (after preparation) a pair of trains -/
theorem B2_dirValues_pair (kw : Kw) (L : List Train) (a b : Train) (h : prep kw L = [a, b]) :
    dirValues kw none L
      = [(dirProfile a.spikes b.spikes a.ts a.te kw.maxTau kw.mrts).1,
         (dirProfile a.spikes b.spikes a.ts a.te kw.maxTau kw.mrts).2] := by
  have hr : List.range 2 = [0, 1] := rfl
  have hp : posPairs 2 = [(0, 1)] := pairsOf_range_two
  have hl := B2_dirProfile_length a.spikes b.spikes a.ts a.te kw.maxTau kw.mrts
  have h1 : ((2 : Nat) : Q) - 1 = 1 := by norm_num
  unfold dirValues
  simp only [h, resolveIdx, List.length_cons, List.length_nil, Nat.zero_add, Nat.reduceAdd, hr, hp,
    List.map_cons, List.map_nil, List.foldl_cons, List.foldl_nil, List.getD_cons_zero,
    List.getD_cons_succ, tr, List.set_cons_zero, List.set_cons_succ, h1, div_one, List.map_id']
  rw [B2_addLists_zero _ _ hl.1, B2_addLists_zero _ _ hl.2]

/-- the un-normalised spike directionality is the sum of the directionality values of the first
    (reconciled) train — whatever `kw.recon` says, because the value route reconciles anyway -/
theorem B2_spikeDirectionality_eq (kw : Kw) (a b : Train) :
    spikeDirectionality kw false a b
      = qsum (dirProfile (reconcileBi a b).1.spikes (reconcileBi a b).2.spikes
          (reconcileBi a b).1.ts (reconcileBi a b).1.te kw.maxTau kw.mrts).1 := by
  unfold spikeDirectionality
  simp only [Bool.false_eq_true, if_false]
  rw [B2_dirValues_pair { kw with recon := true } _ _ _ (B2_prep_prepBi kw a b)]
  rfl

theorem B2_reconcileBi_sorted (a b : Train) :
    (reconcileBi a b).1.spikes.Pairwise (· < ·) ∧ (reconcileBi a b).2.spikes.Pairwise (· < ·) := by
  have h := reconcile_spikes_sorted [a, b]
  rw [reconcileBi_eq] at h
  exact ⟨h _ (by simp), h _ (by simp)⟩

/-- **sign convention / synfire identity for one pair**: the pair (Σ values, Σ multiplicities) of
    the spike-train-order profile is (2 × un-normalised directionality, number of spikes of the two
    reconciled trains) -/
theorem B2_orderValues_eq_dir (kw : Kw) (a b : Train) :
    orderValues kw a b
      = (2 * spikeDirectionality kw false a b,
         ((reconcileBi a b).1.spikes.length : Q) + ((reconcileBi a b).2.spikes.length : Q)) := by
  have hs := B2_reconcileBi_sorted a b
  rw [B2_spikeDirectionality_eq]
  unfold orderValues orderProfileBi
  simp only [prepBi, if_true]
  exact B2_orderProfile_integral _ _ _ _ _ _ hs.1 hs.2

/-- un-normalised spike-train order = 2 × un-normalised spike directionality -/
theorem B2_spikeTrainOrderBi_eq_dir (kw : Kw) (a b : Train) :
    spikeTrainOrderBi kw false a b = 2 * spikeDirectionality kw false a b := by
  unfold spikeTrainOrderBi
  simp only [Bool.false_eq_true, if_false, B2_orderValues_eq_dir]

/-- exchanging the two trains negates the un-normalised directionality (and spike-train order) -/
theorem B2_spikeDirectionality_swap (kw : Kw) (a b : Train) (hts : a.ts = b.ts) (hte : a.te = b.te) :
    spikeDirectionality kw false b a = - spikeDirectionality kw false a b := by
  have hab := reconcile_eq [a, b]
  have hba := reconcile_eq [b, a]
  rw [reconcileBi_eq] at hab hba
  simp only [List.map_cons, List.map_nil, List.cons.injEq, and_true] at hab hba
  have hmin : minList 0 [b.ts, a.ts] = minList 0 [a.ts, b.ts] := by rw [hts]
  have hmax : maxList 0 [b.te, a.te] = maxList 0 [a.te, b.te] := by rw [hte]
  have hs := B2_reconcileBi_sorted a b
  rw [B2_spikeDirectionality_eq, B2_spikeDirectionality_eq]
  have e1 : (reconcileBi b a).1.spikes = (reconcileBi a b).2.spikes := by
    rw [hba.1, hab.2, hmin, hmax]
  have e2 : (reconcileBi b a).2.spikes = (reconcileBi a b).1.spikes := by
    rw [hba.2, hab.1, hmin, hmax]
  have e3 : (reconcileBi b a).1.ts = (reconcileBi a b).1.ts := by
    rw [hba.1, hab.1, hmin]
  have e4 : (reconcileBi b a).1.te = (reconcileBi a b).1.te := by
    rw [hba.1, hab.1, hmax]
  rw [e1, e2, e3, e4, dirProfile_swap _ _ _ _ _ _ hs.1 hs.2]
  have hz := dirProfile_sum_zero _ _ (reconcileBi a b).1.ts (reconcileBi a b).1.te kw.maxTau kw.mrts
    hs.1 hs.2
  simp only
  linarith

/-! ### the multivariate synfire identity -/

/-- sum of the entries above the diagonal of an `n × n` matrix (list of rows) -/
def B2_upperSum (M : List (List Q)) (n : Nat) : Q :=
  qsum ((posPairs n).map fun p => (M.getD p.1 []).getD p.2 0)

theorem B2_pairsOf_lt {l : List Nat} (h : l.Pairwise (· < ·)) : ∀ p ∈ pairsOf l, p.1 < p.2 := by
  induction l with
  | nil => intro p hp; simp [pairsOf] at hp
  | cons i r ih =>
    intro p hp
    have hc := List.pairwise_cons.mp h
    simp only [pairsOf, List.mem_append, List.mem_map] at hp
    rcases hp with ⟨j, hj, rfl⟩ | hp
    · exact hc.1 j hj
    · exact ih hc.2 p hp

theorem B2_posPairs_lt {n : Nat} {p : Nat × Nat} (hp : p ∈ posPairs n) : p.1 < p.2 :=
  B2_pairsOf_lt List.pairwise_lt_range p hp

/-- the diagonal of the directionality matrix is 0 -/
theorem B2_spikeDirectionalityMatrix_diag (kw : Kw) (normalize : Bool) (idx : Option (List Nat))
    (L : List Train) (i : Nat) (hi : i < (resolveIdx idx (prep kw L).length).length) :
    ((spikeDirectionalityMatrix kw normalize idx L).getD i []).getD i 0 = 0 := by
  unfold spikeDirectionalityMatrix
  simp only [List.getD_eq_getElem?_getD, List.getElem?_map, List.getElem?_range hi,
    Option.map_some, Option.getD_some, if_true]

/-- an entry above the diagonal is the directionality of the two selected trains -/
theorem B2_spikeDirectionalityMatrix_upper (kw : Kw) (normalize : Bool) (idx : Option (List Nat))
    (L : List Train) (i j : Nat) (hij : i < j)
    (hj : j < (resolveIdx idx (prep kw L).length).length) :
    ((spikeDirectionalityMatrix kw normalize idx L).getD i []).getD j 0 =
      spikeDirectionality kw.noRecon normalize
        (tr (prep kw L) ((resolveIdx idx (prep kw L).length).getD i 0))
        (tr (prep kw L) ((resolveIdx idx (prep kw L).length).getD j 0)) := by
  have hi : i < (resolveIdx idx (prep kw L).length).length := lt_trans hij hj
  have h1 : ¬ i = j := by omega
  unfold spikeDirectionalityMatrix
  simp only [List.getD_eq_getElem?_getD, List.getElem?_map, List.getElem?_range hi,
    List.getElem?_range hj, Option.map_some, Option.getD_some, if_neg h1, if_pos hij]

theorem B2_foldl_pair {α} (g : α → Q × Q) (ps : List α) : ∀ acc : Q × Q,
    ps.foldl (fun acc p => (acc.1 + (g p).1, acc.2 + (g p).2)) acc
      = (acc.1 + qsum (ps.map fun p => (g p).1), acc.2 + qsum (ps.map fun p => (g p).2)) := by
  induction ps with
  | nil => intro acc; simp [qsum]
  | cons p r ih =>
    intro acc
    rw [List.foldl_cons, ih]
    simp only [List.map_cons, qsum]
    refine Prod.ext ?_ ?_ <;> simp only <;> ring

theorem B2_qsum_map_two_mul {α} (f : α → Q) (l : List α) :
    qsum (l.map fun x => 2 * f x) = 2 * qsum (l.map f) := by
  induction l with
  | nil => simp [qsum]
  | cons a r ih => simp only [List.map_cons, qsum, ih]; ring

/-- the un-normalised directionality does not depend on `kw.recon` -/
theorem B2_spikeDirectionality_noRecon (kw : Kw) (a b : Train) :
    spikeDirectionality kw.noRecon false a b = spikeDirectionality kw false a b := by
  rw [B2_spikeDirectionality_eq, B2_spikeDirectionality_eq]
  rfl

/-- **synfire identity, general form**: the multivariate spike-train order is twice the sum of the
    upper triangle of the (un-normalised) directionality matrix, divided by the total multiplicity
    `N` (number of spikes of the reconciled pairs, summed over all pairs) -/
theorem B2_spikeTrainOrderMulti_eq_dir (kw : Kw) (idx : Option (List Nat)) (L : List Train) :
    spikeTrainOrderMulti kw idx L =
      (let L' := prep kw L
       let ids := resolveIdx idx L'.length
       let N := qsum ((pairsOf ids).map fun p =>
          ((reconcileBi (tr L' p.1) (tr L' p.2)).1.spikes.length : Q)
            + ((reconcileBi (tr L' p.1) (tr L' p.2)).2.spikes.length : Q))
       if N = 0 then 1
       else 2 * B2_upperSum (spikeDirectionalityMatrix kw false idx L) ids.length / N) := by
  unfold spikeTrainOrderMulti
  simp only
  rw [B2_foldl_pair (fun p : Nat × Nat => orderValues kw (tr (prep kw L) p.1) (tr (prep kw L) p.2))]
  simp only [B2_orderValues_eq_dir, zero_add]
  rw [B2_qsum_map_two_mul]
  have hU : qsum ((pairsOf (resolveIdx idx (prep kw L).length)).map fun p =>
        spikeDirectionality kw false (tr (prep kw L) p.1) (tr (prep kw L) p.2))
      = B2_upperSum (spikeDirectionalityMatrix kw false idx L)
          (resolveIdx idx (prep kw L).length).length := by
    unfold B2_upperSum
    rw [pairsOf_range_get, List.map_map]
    congr 1
    apply List.map_congr_left
    intro p hp
    have hlt := B2_posPairs_lt hp
    have hn := mem_posPairs hp
    rw [B2_spikeDirectionalityMatrix_upper kw false idx L p.1 p.2 hlt hn.2,
      B2_spikeDirectionality_noRecon]
    rfl
  rw [hU]

/-- each index occurs in `n - 1` pairs -/
theorem B2_pairs_count (f : Nat → Q) (l : List Nat) :
    qsum ((pairsOf l).map fun p => f p.1 + f p.2) = ((l.length : Q) - 1) * qsum (l.map f) := by
  induction l with
  | nil => simp [pairsOf, qsum]
  | cons i r ih =>
    have h1 : ∀ r' : List Nat, qsum ((r'.map fun j => (i, j)).map fun p => f p.1 + f p.2)
        = (r'.length : Q) * f i + qsum (r'.map f) := by
      intro r'
      induction r' with
      | nil => simp [qsum]
      | cons j t iht =>
        simp only [List.map_cons, qsum, iht, List.length_cons]; push_cast; ring
    simp only [pairsOf, List.map_append, qsum_append, h1, ih, List.map_cons, qsum,
      List.length_cons]
    push_cast; ring

/-- two trains taken from a reconciled list are a fixed point of the pair reconciliation -/
theorem B2_reconcileBi_of_reconciled (L : List Train) (i j : Nat) (hi : i < L.length)
    (hj : j < L.length) :
    reconcileBi (tr (reconcile L) i) (tr (reconcile L) j)
      = (tr (reconcile L) i, tr (reconcile L) j) := by
  have hi' : i < (reconcile L).length := by rw [reconcile_length]; exact hi
  have hj' : j < (reconcile L).length := by rw [reconcile_length]; exact hj
  have ei : tr (reconcile L) i = (reconcile L)[i] := by
    simp [tr, List.getD_eq_getElem?_getD, List.getElem?_eq_getElem hi']
  have ej : tr (reconcile L) j = (reconcile L)[j] := by
    simp [tr, List.getD_eq_getElem?_getD, List.getElem?_eq_getElem hj']
  rw [ei, ej, reconcile_getElem L i hi, reconcile_getElem L j hj]
  have h := reconcileBi_eq
    (⟨recFilter (minList 0 (L.map (·.ts))) (maxList 0 (L.map (·.te))) L[i].spikes,
        minList 0 (L.map (·.ts)), maxList 0 (L.map (·.te))⟩ : Train)
    (⟨recFilter (minList 0 (L.map (·.ts))) (maxList 0 (L.map (·.te))) L[j].spikes,
        minList 0 (L.map (·.ts)), maxList 0 (L.map (·.te))⟩ : Train)
  rw [reconcile_eq] at h
  simp only [List.map_cons, List.map_nil, minList, maxList, List.foldl_cons, List.foldl_nil,
    min_self, max_self, recFilter_idem, List.cons.injEq, and_true] at h
  exact Prod.ext h.1.symm h.2.symm

/-- **synfire identity** (reconciling call, valid indices): the multivariate spike-train order is
    `2 · (sum of the upper triangle of the directionality matrix) / ((n-1) · total number of
    spikes)`; it is 1 when there are no spikes or fewer than two trains -/
theorem B2_spikeTrainOrderMulti_synfire (kw : Kw) (idx : Option (List Nat)) (L : List Train)
    (hr : kw.recon = true)
    (hv : idxValid (resolveIdx idx (prep kw L).length) (prep kw L).length = true) :
    spikeTrainOrderMulti kw idx L =
      (let L' := prep kw L
       let ids := resolveIdx idx L'.length
       let T := qsum (ids.map fun i => ((tr L' i).spikes.length : Q))
       if ((ids.length : Q) - 1) * T = 0 then 1
       else 2 * B2_upperSum (spikeDirectionalityMatrix kw false idx L) ids.length
          / (((ids.length : Q) - 1) * T)) := by
  rw [B2_spikeTrainOrderMulti_eq_dir]
  simp only
  have hN : qsum ((pairsOf (resolveIdx idx (prep kw L).length)).map fun p =>
          ((reconcileBi (tr (prep kw L) p.1) (tr (prep kw L) p.2)).1.spikes.length : Q)
            + ((reconcileBi (tr (prep kw L) p.1) (tr (prep kw L) p.2)).2.spikes.length : Q))
      = (((resolveIdx idx (prep kw L).length).length : Q) - 1)
          * qsum ((resolveIdx idx (prep kw L).length).map fun i =>
              ((tr (prep kw L) i).spikes.length : Q)) := by
    rw [← B2_pairs_count]
    congr 1
    apply List.map_congr_left
    intro p hp
    have hm := mem_pairsOf hp
    simp only [idxValid, List.all_eq_true, decide_eq_true_eq] at hv
    have h1 := hv p.1 hm.1
    have h2 := hv p.2 hm.2
    simp only [prep, hr, if_true] at h1 h2 ⊢
    rw [reconcile_length] at h1 h2
    rw [B2_reconcileBi_of_reconciled L p.1 p.2 h1 h2]
  rw [hN]

theorem B2_idxValid_range (n : Nat) : idxValid (List.range n) n = true := by
  simp [idxValid]

/-- the synfire identity for all trains (`indices=None`) of a reconciling call -/
theorem B2_spikeTrainOrderMulti_synfire_all (kw : Kw) (L : List Train) (hr : kw.recon = true) :
    spikeTrainOrderMulti kw none L =
      (let L' := prep kw L
       let n := L'.length
       let T := qsum (L'.map fun t => (t.spikes.length : Q))
       if ((n : Q) - 1) * T = 0 then 1
       else 2 * B2_upperSum (spikeDirectionalityMatrix kw false none L) n / (((n : Q) - 1) * T)) := by
  rw [B2_spikeTrainOrderMulti_synfire kw none L hr (B2_idxValid_range _)]
  have hT : ((List.range (prep kw L).length).map fun i => (((tr (prep kw L) i).spikes.length : Nat) : Q))
      = (prep kw L).map fun t => (t.spikes.length : Q) := by
    apply List.ext_getElem
    · simp
    · intro i h1 h2
      simp only [List.length_map, List.length_range] at h1
      simp [tr, List.getD_eq_getElem?_getD, List.getElem?_eq_getElem h1]
  simp only [resolveIdx, List.length_range, hT]

example : ({} : Kw).recon = true ∧
    idxValid (resolveIdx (some [2, 0]) (prep {} [⟨[1], 0, 2⟩, ⟨[], 0, 2⟩, ⟨[1/2, 3/2], 0, 2⟩]).length)
      (prep {} [⟨[1], 0, 2⟩, ⟨[], 0, 2⟩, ⟨[1/2, 3/2], 0, 2⟩]).length = true := by
  refine ⟨rfl, ?_⟩
  simp [prep, reconcile_length, resolveIdx, idxValid]

example : (⟨[1, 4], 0, 6⟩ : Train).ts = (⟨[2, 5], 0, 6⟩ : Train).ts ∧
    (⟨[1, 4], 0, 6⟩ : Train).te = (⟨[2, 5], 0, 6⟩ : Train).te := ⟨rfl, rfl⟩

/-! The antisymmetry of the matrix, `M[i][j] = -M[j][i]`, is `spikeDirectionalityMatrix_antisymm`
    in `Proofs/ApiLaws.lean`; together with `B2_spikeDirectionalityMatrix_diag` above and
    `B2_spikeDirectionality_swap` (the value of (B, A) is minus that of (A, B), so the lower triangle
    *is* the directionality of the exchanged pair) this is the sign convention of property C04. -/

end PySpike
