/-
  Proofs/SpikeSymm.lean — work package C2: symmetry and identity of the SPIKE scan; the SPIKE
  profile of valid trains is a well-formed piecewise linear function; the multivariate SPIKE /
  SPIKE-Sync theorems without extra hypotheses.
-/
import PySpikeVerif.Proofs.SpikeScan
import PySpikeVerif.Proofs.MultiLaws
import PySpikeVerif.Proofs.OrderLaws
import PySpikeVerif.Properties.C01
import PySpikeVerif.Properties.C07

namespace PySpike
open PySpike.C01

/-! ## 1. symmetry of the SPIKE scan -/

/-- the environment of the scan with the roles of the two trains exchanged -/
def C2_swapEnv (e : SpkEnv) : SpkEnv := ⟨e.te, e.m, e.ri, e.as2, e.ae2, e.as1, e.ae1⟩

/-- swapping the two trains swaps the two final states and leaves the events unchanged -/
theorem spkLoop_symm (e : SpkEnv) :
    ∀ (x1 : SpkSt) (p1 : Option Q) (r1 : List Q) (x2 : SpkSt) (p2 : Option Q) (r2 : List Q),
      spkLoop (C2_swapEnv e) x2 p2 r2 x1 p1 r1 =
        ((spkLoop e x1 p1 r1 x2 p2 r2).1, (spkLoop e x1 p1 r1 x2 p2 r2).2.2,
         (spkLoop e x1 p1 r1 x2 p2 r2).2.1) := by
  intro x1 p1 r1 x2 p2 r2
  induction x1, p1, r1, x2, p2, r2 using spkLoop.induct e with
  | case1 x1 p1 x2 p2 => rw [spkLoop, spkLoop]
  | case2 x1 p1 x2 p2 a r1' adv ih =>
    rw [spkLoop.eq_3, spkLoop.eq_2]
    dsimp only
    rw [show spkAdvance (C2_swapEnv e).te (C2_swapEnv e).m (C2_swapEnv e).ri x1 p1 a r1' x2
          (fromIdx p2 []) (C2_swapEnv e).ae2 (C2_swapEnv e).as1 (C2_swapEnv e).ae1 = adv from rfl]
    rw [ih]
  | case3 x1 p1 x2 p2 b r2' adv ih =>
    rw [spkLoop.eq_2, spkLoop.eq_3]
    dsimp only
    rw [show spkAdvance (C2_swapEnv e).te (C2_swapEnv e).m (C2_swapEnv e).ri x2 p2 b r2' x1
          (fromIdx p1 []) (C2_swapEnv e).ae1 (C2_swapEnv e).as2 (C2_swapEnv e).ae2 = adv from rfl]
    rw [ih]
  | case4 x1 p1 x2 p2 a r1' b r2' hlt adv ih =>
    rw [spkLoop.eq_4, if_neg (not_lt.mpr (le_of_lt hlt)), if_pos hlt]
    conv_rhs => rw [spkLoop.eq_4, if_pos hlt]
    dsimp only
    rw [show spkAdvance (C2_swapEnv e).te (C2_swapEnv e).m (C2_swapEnv e).ri x1 p1 a r1' x2
          (fromIdx p2 (b :: r2')) (C2_swapEnv e).ae2 (C2_swapEnv e).as1 (C2_swapEnv e).ae1 = adv
        from rfl]
    rw [ih]
  | case5 x1 p1 x2 p2 a r1' b r2' hlt hgt adv ih =>
    rw [spkLoop.eq_4, if_pos hgt]
    conv_rhs => rw [spkLoop.eq_4, if_neg hlt, if_pos hgt]
    dsimp only
    rw [show spkAdvance (C2_swapEnv e).te (C2_swapEnv e).m (C2_swapEnv e).ri x2 p2 b r2' x1
          (fromIdx p1 (a :: r1')) (C2_swapEnv e).ae1 (C2_swapEnv e).as2 (C2_swapEnv e).ae2 = adv
        from rfl]
    rw [ih]
  | case6 x1 p1 x2 p2 a r1' b r2' hlt hgt x1' x2' ih =>
    have hEq : x2.tf = x1.tf := le_antisymm (not_lt.mp hlt) (not_lt.mp hgt)
    rw [spkLoop.eq_4, if_neg hgt, if_neg hlt]
    conv_rhs => rw [spkLoop.eq_4, if_neg hlt, if_neg hgt]
    dsimp only
    rw [show spkTie (C2_swapEnv e).te x1 p1 a r1' (b :: r2') (C2_swapEnv e).ae2 (C2_swapEnv e).as1
          (C2_swapEnv e).ae1 = x1' from rfl,
        show spkTie (C2_swapEnv e).te x2 p2 b r2' (a :: r1') (C2_swapEnv e).ae1 (C2_swapEnv e).as2
          (C2_swapEnv e).ae2 = x2' from rfl]
    rw [ih, hEq]

/-- **SPIKE profile is symmetric in its two trains** (all inputs) -/
theorem spikeProfile_symm (t1 t2 : List Q) (ts te m : Q) (ri : Bool) :
    spikeProfile t1 t2 ts te m ri = spikeProfile t2 t1 ts te m ri := by
  have h := spkLoop_symm (B4_env t1 t2 ts te m ri) (B4_init t1 t2 ts te).1 (B4_init t1 t2 ts te).2.1
    (B4_init t1 t2 ts te).2.2.1 (B4_init t2 t1 ts te).1 (B4_init t2 t1 ts te).2.1
    (B4_init t2 t1 ts te).2.2.1
  have hres : B4_res t2 t1 ts te m ri =
      ((B4_res t1 t2 ts te m ri).1, (B4_res t1 t2 ts te m ri).2.2, (B4_res t1 t2 ts te m ri).2.1) := h
  rw [B4_spikeProfile_unfold t2 t1, hres, B4_spikeProfile_unfold t1 t2]
  dsimp only
  rw [distAtT_symm (B4_init t2 t1 ts te).1.isi, distAtT_symm (B4_res t1 t2 ts te m ri).2.2.isi]

example : spikeProfile [1, 3, 4] [2, 3, 6] 0 6 0 false = spikeProfile [2, 3, 6] [1, 3, 4] 0 6 0 false := by
  decide +kernel

/-- `spike_profile(st1, st2)` = `spike_profile(st2, st1)` (no reconciliation, common edges) -/
theorem spikeProfileBi_symm (a b : Train) (kw : Kw) (hr : kw.recon = false)
    (hts : b.ts = a.ts) (hte : b.te = a.te) :
    spikeProfileBi kw a b = spikeProfileBi kw b a := by
  simp only [spikeProfileBi, prepBi, hr, Bool.false_eq_true, if_false]
  rw [spikeProfile_symm, hts, hte]

/-- `spike_distance(st1, st2)` = `spike_distance(st2, st1)` (any interval) -/
theorem spikeDistanceBi_symm (a b : Train) (kw : Kw) (hr : kw.recon = false)
    (hts : b.ts = a.ts) (hte : b.te = a.te) :
    spikeDistanceBi kw a b = spikeDistanceBi kw b a := by
  unfold spikeDistanceBi; rw [spikeProfileBi_symm a b kw hr hts hte]

example : exB.ts = exA.ts ∧ exB.te = exA.te ∧ ({ recon := false } : Kw).recon = false :=
  ⟨rfl, rfl, rfl⟩
example : spikeDistanceBi { recon := false } exA exB = spikeDistanceBi { recon := false } exB exA := by
  decide +kernel

/-- with reconciliation (the default) the two calls agree for all trains -/
theorem C2_reconcileBi_swap (a b : Train) :
    reconcileBi b a = ((reconcileBi a b).2, (reconcileBi a b).1) := by
  have h1 : reconcile [b, a] = (reconcile [a, b]).reverse := by
    unfold reconcile
    simp only [List.map_cons, List.map_nil, minList, maxList, List.foldl_cons, List.foldl_nil,
      List.reverse_cons, List.reverse_nil, List.nil_append, List.cons_append]
    rw [min_comm b.ts, max_comm b.te]
  unfold reconcileBi
  rw [h1]
  simp only [reconcile, List.map_cons, List.map_nil, List.reverse_cons, List.reverse_nil,
    List.nil_append, List.cons_append]

theorem C2_reconcileBi_edges (a b : Train) :
    (reconcileBi a b).2.ts = (reconcileBi a b).1.ts ∧ (reconcileBi a b).2.te = (reconcileBi a b).1.te := by
  unfold reconcileBi
  simp only [reconcile, List.map_cons, List.map_nil]
  exact ⟨trivial, trivial⟩

/-- SPIKE profile symmetry with reconciliation: no hypothesis on the trains -/
theorem C2_spikeProfileBi_symm_recon (a b : Train) (kw : Kw) (hr : kw.recon = true) :
    spikeProfileBi kw a b = spikeProfileBi kw b a := by
  simp only [spikeProfileBi, prepBi, hr, if_true]
  rw [C2_reconcileBi_swap a b]
  dsimp only
  rw [spikeProfile_symm, (C2_reconcileBi_edges a b).1, (C2_reconcileBi_edges a b).2]

theorem C2_spikeDistanceBi_symm_recon (a b : Train) (kw : Kw) (hr : kw.recon = true) :
    spikeDistanceBi kw a b = spikeDistanceBi kw b a := by
  unfold spikeDistanceBi; rw [C2_spikeProfileBi_symm_recon a b kw hr]

example : spikeDistanceBi { } ⟨[1, 3, 4], 0, 5⟩ ⟨[2, 3, 6], 1, 6⟩ =
    spikeDistanceBi { } ⟨[2, 3, 6], 1, 6⟩ ⟨[1, 3, 4], 0, 5⟩ := C2_spikeDistanceBi_symm_recon _ _ _ rfl

/-! ## 3. the SPIKE profile of valid trains is a well-formed piecewise linear function -/

theorem C2_spikeProfileBi_x (kw : Kw) (a b : Train) (hr : kw.recon = false) :
    (spikeProfileBi kw a b).x = (isiProfileBi { mrts := 0, recon := false } a b).x := by
  simp only [spikeProfileBi, isiProfileBi, prepBi, hr, Bool.false_eq_true, if_false]
  exact spikeProfile_breaks _ _ _ _ _ _

/-- **well-formedness**: the SPIKE profile of two valid trains with the same edges is a well-formed
    piecewise linear function on `[ts, te]` -/
theorem C2_spikeProfileBi_on (kw : Kw) (a b : Train) (hr : kw.recon = false)
    (ha : ValidTrain a) (hb : ValidTrain b) (hts : b.ts = a.ts) (hte : b.te = a.te) :
    B5_PwlOn a.ts a.te (spikeProfileBi kw a b) := by
  obtain ⟨⟨-, hs, h2⟩, hf, hl⟩ :=
    B5_isiProfileBi_on { mrts := 0, recon := false } a b rfl ha hb hts hte
  have hx := C2_spikeProfileBi_x kw a b hr
  have hlen : (spikeProfileBi kw a b).y1.length + 1 = (spikeProfileBi kw a b).x.length ∧
      (spikeProfileBi kw a b).y2.length = (spikeProfileBi kw a b).y1.length := by
    simp only [spikeProfileBi]
    exact spikeProfile_lengths _ _ _ _ _ _
  refine ⟨⟨hlen.1, by rw [hlen.2]; exact hlen.1, ?_, ?_⟩, ?_, ?_⟩
  · rw [hx]; exact hs
  · rw [hx]; exact h2
  · unfold Pwl.first; rw [hx]; exact hf
  · unfold Pwl.last; rw [hx]; exact hl

example : ValidTrain exA ∧ ValidTrain exB ∧ exB.ts = exA.ts ∧ exB.te = exA.te :=
  ⟨⟨by decide, by decide, by decide⟩, ⟨by decide, by decide, by decide⟩, rfl, rfl⟩

theorem C2_spike_leaf_on (kw : Kw) (L : List Train) (ts te : Q) (hr : kw.recon = false)
    (hv : B5_ValidList ts te L) :
    ∀ p ∈ pairsOf (List.range L.length),
      B5_PwlOn ts te (spikeProfileBi kw (tr L p.1) (tr L p.2)) := by
  intro p hp
  obtain ⟨h1, h2⟩ := B5_pair_mem L p hp
  obtain ⟨v1, s1, e1⟩ := hv _ h1
  obtain ⟨v2, s2, e2⟩ := hv _ h2
  have := C2_spikeProfileBi_on kw _ _ hr v1 v2 (s2.trans s1.symm) (e2.trans e1.symm)
  rwa [s1, e1] at this

/-- **multivariate SPIKE profile = mean of the pair profiles** at every time `ts ≤ t < te`
    (valid trains with common edges, no reconciliation) -/
theorem spikeProfileMulti_evalR_eq_mean_valid (kw : Kw) (L : List Train) (ts te t : Q)
    (hr : kw.recon = false) (hv : B5_ValidList ts te L) (h2 : 2 ≤ L.length)
    (ht0 : ts ≤ t) (ht1 : t < te) :
    (spikeProfileMulti kw none L).evalR t =
      some (qsum ((pairsOf (List.range L.length)).map fun p =>
          ((spikeProfileBi kw (tr L p.1) (tr L p.2)).evalR t).getD 0)
        / ((pairsOf (List.range L.length)).length : Q)) ∧
    ∀ p ∈ pairsOf (List.range L.length),
      (spikeProfileBi kw (tr L p.1) (tr L p.2)).evalR t =
        some (((spikeProfileBi kw (tr L p.1) (tr L p.2)).evalR t).getD 0) :=
  ⟨spikeProfileMulti_evalR_eq_mean kw L ts te t hr h2 (C2_spike_leaf_on kw L ts te hr hv) ht0 ht1,
   fun p hp => (C2_spike_leaf_on kw L ts te hr hv p hp).evalR_some ht0 ht1⟩

/-- **multivariate SPIKE distance = average of the multivariate SPIKE profile** (interval = None;
    valid trains with common edges, no reconciliation) -/
theorem spikeDistanceMulti_eq_avrg_profile_valid (kw : Kw) (L : List Train) (ts te : Q)
    (hr : kw.recon = false) (hi : kw.interval = none) (hv : B5_ValidList ts te L)
    (h2 : 2 ≤ L.length) :
    spikeDistanceMulti kw none L = some ((spikeProfileMulti kw none L).avrgAll) :=
  spikeDistanceMulti_eq_avrg_profile kw L ts te hr hi h2 (C2_spike_leaf_on kw L ts te hr hv)

/-- the multivariate SPIKE profile of valid trains on `[ts, te]` is itself well-formed on `[ts, te]` -/
theorem C2_spikeProfileMulti_on (kw : Kw) (L : List Train) (ts te : Q)
    (hr : kw.recon = false) (hv : B5_ValidList ts te L) (h2 : 2 ≤ L.length) :
    B5_PwlOn ts te (spikeProfileMulti kw none L) := by
  have hleaf := C2_spike_leaf_on kw L ts te hr hv
  unfold spikeProfileMulti
  simp only [prep_of_recon_false kw L hr, resolveIdx, Kw.noRecon_eq kw hr]
  obtain ⟨s, -⟩ := B5_gpm_sum Pwl.add (fun p => spikeProfileBi kw (tr L p.1) (tr L p.2))
    (B5_PwlOn ts te) (fun _ => 0) (fun _ _ => B5_PwlOn.add)
    (fun _ _ _ _ => by simp) (List.range L.length) (B5_pairs_range_ne_nil h2) hleaf
  exact ⟨Pwl.mulScalar_wf s.1 _, s.2.1, s.2.2⟩

example : ({ recon := false } : Kw).recon = false ∧ ({ recon := false } : Kw).interval = none ∧
    B5_ValidList 0 6 B5_exV ∧ 2 ≤ B5_exV.length ∧ (0 : Q) ≤ 5 / 2 ∧ (5 / 2 : Q) < 6 :=
  ⟨rfl, rfl, B5_exV_valid, by decide, by norm_num, by norm_num⟩

/-! ### … for every `kw` (valid trains with common edges are not changed by `reconcile`) -/

theorem C2_spikeProfileBi_valid (kw : Kw) (a b : Train) (ha : ValidTrain a) (hb : ValidTrain b)
    (hts : b.ts = a.ts) (hte : b.te = a.te) :
    spikeProfileBi kw a b = spikeProfileBi kw.noRecon a b := by
  unfold spikeProfileBi
  rw [B5_prepBi_valid kw a b ha hb hts hte, prepBi_noRecon]
  rfl

theorem C2_spikeProfileBi_valid_pair (kw : Kw) (L : List Train) (ts te : Q)
    (hv : B5_ValidList ts te L) : ∀ p ∈ pairsOf (List.range L.length),
      spikeProfileBi kw.noRecon (tr L p.1) (tr L p.2) = spikeProfileBi kw (tr L p.1) (tr L p.2) := by
  intro p hp
  obtain ⟨h1, h2⟩ := B5_pair_mem L p hp
  obtain ⟨v1, s1, e1⟩ := hv _ h1
  obtain ⟨v2, s2, e2⟩ := hv _ h2
  exact (C2_spikeProfileBi_valid kw _ _ v1 v2 (s2.trans s1.symm) (e2.trans e1.symm)).symm

/-- well-formedness for every `kw` -/
theorem C2_spikeProfileBi_on_anyRecon (kw : Kw) (a b : Train)
    (ha : ValidTrain a) (hb : ValidTrain b) (hts : b.ts = a.ts) (hte : b.te = a.te) :
    B5_PwlOn a.ts a.te (spikeProfileBi kw a b) := by
  rw [C2_spikeProfileBi_valid kw a b ha hb hts hte]
  exact C2_spikeProfileBi_on kw.noRecon a b rfl ha hb hts hte

theorem C2_spikeProfileMulti_evalR_eq_mean_valid_anyRecon (kw : Kw) (L : List Train) (ts te t : Q)
    (hv : B5_ValidList ts te L) (h2 : 2 ≤ L.length) (ht0 : ts ≤ t) (ht1 : t < te) :
    (spikeProfileMulti kw none L).evalR t =
      some (qsum ((pairsOf (List.range L.length)).map fun p =>
          ((spikeProfileBi kw (tr L p.1) (tr L p.2)).evalR t).getD 0)
        / ((pairsOf (List.range L.length)).length : Q)) := by
  have h := (spikeProfileMulti_evalR_eq_mean_valid kw.noRecon L ts te t rfl hv h2 ht0 ht1).1
  have e : spikeProfileMulti kw none L = spikeProfileMulti kw.noRecon none L := by
    unfold spikeProfileMulti
    rw [B5_prep_valid kw ts te L hv (B5_ne_nil_of_two h2)]
    rfl
  rw [e, h]
  congr 3
  apply List.map_congr_left
  intro p hp
  rw [C2_spikeProfileBi_valid_pair kw L ts te hv p hp]

theorem C2_spikeDistanceMulti_eq_avrg_profile_valid_anyRecon (kw : Kw) (L : List Train) (ts te : Q)
    (hi : kw.interval = none) (hv : B5_ValidList ts te L) (h2 : 2 ≤ L.length) :
    spikeDistanceMulti kw none L = some ((spikeProfileMulti kw none L).avrgAll) := by
  have h := spikeDistanceMulti_eq_avrg_profile_valid kw.noRecon L ts te rfl hi hv h2
  have e : spikeProfileMulti kw none L = spikeProfileMulti kw.noRecon none L := by
    unfold spikeProfileMulti
    rw [B5_prep_valid kw ts te L hv (B5_ne_nil_of_two h2)]
    rfl
  have e' : spikeDistanceMulti kw none L = spikeDistanceMulti kw.noRecon none L := by
    unfold spikeDistanceMulti
    rw [B5_prep_valid kw ts te L hv (B5_ne_nil_of_two h2)]
    rfl
  rw [e, e', h]

example : ({ } : Kw).interval = none ∧ B5_ValidList 0 6 B5_exV ∧ 2 ≤ B5_exV.length :=
  ⟨rfl, B5_exV_valid, by decide⟩

/-! ## 4. order independence of the multivariate SPIKE distance and of multivariate SPIKE-Sync -/

/-- **C06 for the SPIKE distance, without reconciliation**: trains with common edges -/
theorem spikeDistanceMulti_perm_valid (kw : Kw) {L' L : List Train} (ts te : Q)
    (hr : kw.recon = false) (he : ∀ a ∈ L, a.ts = ts ∧ a.te = te) (hp : L'.Perm L) :
    spikeDistanceMulti kw none L' = spikeDistanceMulti kw none L := by
  apply spikeDistanceMulti_perm kw hr _ hp
  intro a ha b hb
  exact spikeDistanceBi_symm a b kw hr ((he b hb).1.trans (he a ha).1.symm)
    ((he b hb).2.trans (he a ha).2.symm)

/-- **C06 for the SPIKE distance, with reconciliation** (the default): no hypothesis on the trains -/
theorem C2_spikeDistanceMulti_perm_recon (kw : Kw) {L' L : List Train} (hr : kw.recon = true)
    (hp : L'.Perm L) :
    spikeDistanceMulti kw none L' = spikeDistanceMulti kw none L := by
  unfold spikeDistanceMulti
  simp only [prep, hr, if_true, resolveIdx]
  apply genericDistanceMulti_perm _ (B5_reconcile_perm hp)
  intro a ha b hb
  have ea := B5_reconcile_edges L a ha
  have eb := B5_reconcile_edges L b hb
  exact spikeDistanceBi_symm a b kw.noRecon rfl (eb.1.trans ea.1.symm) (eb.2.trans ea.2.symm)

/-- C06 for the SPIKE distance in the form "reversed list" -/
theorem C2_spikeDistanceMulti_reverse (kw : Kw) (L : List Train) (ts te : Q)
    (he : kw.recon = true ∨ ∀ a ∈ L, a.ts = ts ∧ a.te = te) :
    spikeDistanceMulti kw none L.reverse = spikeDistanceMulti kw none L := by
  cases hr : kw.recon with
  | true => exact C2_spikeDistanceMulti_perm_recon kw hr (List.reverse_perm L)
  | false =>
    rcases he with h | h
    · rw [hr] at h; exact absurd h (by simp)
    · exact spikeDistanceMulti_perm_valid kw ts te hr h (List.reverse_perm L)

example : ([⟨[2, 3, 6], 0, 6⟩, ⟨[], 0, 6⟩, ⟨[1, 3, 4], 0, 6⟩, ⟨[0, 5], 0, 6⟩] : List Train).Perm
    B5_exV ∧ ∀ a ∈ B5_exV, a.ts = 0 ∧ a.te = 6 :=
  ⟨by decide, fun a ha => (B5_exV_valid a ha).2⟩

/-- symmetry of the bivariate (coincidences, multiplicity) for strictly sorted trains with common
    edges -/
theorem C2_syncValues_symm (kw : Kw) (a b : Train) (hr : kw.recon = false)
    (ha : a.spikes.Pairwise (· < ·)) (hb : b.spikes.Pairwise (· < ·))
    (hts : b.ts = a.ts) (hte : b.te = a.te) :
    syncValues kw a b = syncValues kw b a := by
  unfold syncValues syncProfileBi
  simp only [prepBi, hr, Bool.false_eq_true, if_false]
  rw [coincProfile_swap a.spikes b.spikes b.ts b.te kw.maxTau kw.mrts ha hb, hts, hte]

/-- **C06 for multivariate SPIKE-Sync, without reconciliation**: strictly sorted trains with common
    edges -/
theorem spikeSyncMulti_perm_valid (kw : Kw) {L' L : List Train} (ts te : Q)
    (hr : kw.recon = false)
    (he : ∀ a ∈ L, a.spikes.Pairwise (· < ·) ∧ a.ts = ts ∧ a.te = te) (hp : L'.Perm L) :
    spikeSyncMulti kw none L' = spikeSyncMulti kw none L := by
  apply spikeSyncMulti_perm kw hr _ hp
  intro a ha b hb
  exact C2_syncValues_symm kw a b hr (he a ha).1 (he b hb).1
    ((he b hb).2.1.trans (he a ha).2.1.symm) ((he b hb).2.2.trans (he a ha).2.2.symm)

/-- **C06 for multivariate SPIKE-Sync, with reconciliation** (the default): no hypothesis -/
theorem C2_spikeSyncMulti_perm_recon (kw : Kw) {L' L : List Train} (hr : kw.recon = true)
    (hp : L'.Perm L) :
    spikeSyncMulti kw none L' = spikeSyncMulti kw none L := by
  have e : ∀ M : List Train, spikeSyncMulti kw none M = spikeSyncMulti kw.noRecon none (reconcile M) := by
    intro M
    unfold spikeSyncMulti
    simp only [prep, hr, if_true]
    rfl
  rw [e L', e L]
  apply spikeSyncMulti_perm kw.noRecon rfl _ (B5_reconcile_perm hp)
  intro a ha b hb
  have ea := B5_reconcile_edges L a ha
  have eb := B5_reconcile_edges L b hb
  exact C2_syncValues_symm kw.noRecon a b rfl (reconcile_spikes_sorted L a ha)
    (reconcile_spikes_sorted L b hb) (eb.1.trans ea.1.symm) (eb.2.trans ea.2.symm)

/-- C06 for multivariate SPIKE-Sync, both cases in one statement -/
theorem C2_spikeSyncMulti_perm_any (kw : Kw) {L' L : List Train} (ts te : Q)
    (he : kw.recon = true ∨ ∀ a ∈ L, a.spikes.Pairwise (· < ·) ∧ a.ts = ts ∧ a.te = te)
    (hp : L'.Perm L) :
    spikeSyncMulti kw none L' = spikeSyncMulti kw none L := by
  cases hr : kw.recon with
  | true => exact C2_spikeSyncMulti_perm_recon kw hr hp
  | false =>
    rcases he with h | h
    · rw [hr] at h; exact absurd h (by simp)
    · exact spikeSyncMulti_perm_valid kw ts te hr h hp

example : spikeSyncMulti { } none [⟨[2, 3, 6], 0, 6⟩, ⟨[], 0, 6⟩, ⟨[1, 3, 4], 0, 6⟩, ⟨[0, 5], 0, 6⟩] =
    spikeSyncMulti { } none B5_exV := C2_spikeSyncMulti_perm_recon _ rfl (by decide)

example : ∀ a ∈ B5_exV, a.spikes.Pairwise (· < ·) ∧ a.ts = 0 ∧ a.te = 6 :=
  fun a ha => ⟨(B5_exV_valid a ha).1.2.1, (B5_exV_valid a ha).2⟩

/-! ## 2. identity: the SPIKE profile of a train with itself is 0 -/

/-- scanning a train against itself: every step is a tie, both states stay equal -/
theorem C2_spkLoop_self (e : SpkEnv) (has : e.as1 = e.as2) (hae : e.ae1 = e.ae2) :
    ∀ (r : List Q) (x : SpkSt) (p : Option Q),
      (∀ ev ∈ (spkLoop e x p r x p r).1, ev.2.1 = 0 ∧ ev.2.2 = 0) ∧
      (r ≠ [] → (spkLoop e x p r x p r).2.1.dtf = 0 ∧ (spkLoop e x p r x p r).2.2.dtf = 0) ∧
      (r = [] → spkLoop e x p r x p r = ([], x, x)) := by
  intro r
  induction r with
  | nil =>
    intro x p
    rw [spkLoop]
    exact ⟨fun ev h => absurd h (by simp), fun h => absurd rfl h, fun _ => rfl⟩
  | cons a r' ih =>
    intro x p
    rw [spkLoop.eq_4, if_neg (lt_irrefl _), if_neg (lt_irrefl _)]
    dsimp only
    rw [← has, ← hae]
    obtain ⟨h1, h2, h3⟩ := ih (spkTie e.te x p a r' (a :: r') e.ae1 e.as1 e.ae1) (some a)
    refine ⟨?_, ?_, fun h => absurd h (by simp)⟩
    · intro ev hev
      rcases List.mem_cons.mp hev with h | h
      · rw [h]; exact ⟨rfl, rfl⟩
      · exact h1 ev h
    · intro _
      cases r' with
      | nil => rw [h3 rfl]; exact ⟨rfl, rfl⟩
      | cons b r'' => exact h2 (by simp)

/-- the initial contribution of a train compared with itself is 0 -/
theorem C2_init_self_s (t : List Q) (ts te : Q) : (B4_init t t ts te).2.2.2 = 0 := by
  cases t with
  | nil => rfl
  | cons a r =>
    unfold B4_init spkInit
    dsimp only
    split
    · exact B4_minDist_head _ _ _ _
    · dsimp only
      split
      · next h => rw [← h]; exact B4_minDist_head _ _ _ _
      · unfold minDist
        have h0 : qabs (auxStart (a :: r) ts - auxStart (a :: r) ts) = 0 := by simp [qabs]
        rw [h0]
        exact B4_getMinDistFrom_zero _ _ _

/-- if nothing is left to scan after the start-edge initialisation, the train is `[ts]` (or empty)
    and its distance to the following spike of the other (same) train at the end is 0 -/
theorem C2_init_self_dtf (t : List Q) (ts te : Q) (h : ∀ a ∈ t.head?, ts ≤ a)
    (hr : (B4_init t t ts te).2.2.1 = []) : (B4_init t t ts te).1.dtf = 0 := by
  cases t with
  | nil => rfl
  | cons a r =>
    have ha : ts ≤ a := h a (by simp)
    unfold B4_init spkInit at hr ⊢
    dsimp only at hr ⊢
    split at hr
    · exact absurd hr (by simp)
    · next hgt =>
      dsimp only at hr
      subst hr
      have hEq : a = ts := le_antisymm (not_lt.mp hgt) ha
      subst hEq
      rw [if_neg hgt]
      dsimp only
      unfold minDist getMinDistFrom getMinDistFrom auxStart auxEnd
      dsimp only
      rw [if_neg (lt_irrefl _)]
      have h0 : qabs (te - te) = 0 := by simp [qabs]
      rw [h0]
      split
      · next hlt => exact absurd hlt (not_lt.mpr (qabs_nonneg _))
      · rfl

theorem C2_mem_dropLast {α} (l : List α) (v : α) (h : v ∈ l.dropLast) : v ∈ l :=
  List.dropLast_subset l h

/-- **identity, general form**: the SPIKE profile of a train with itself vanishes identically as soon
    as its first spike is not before `ts` -/
theorem C2_spikeProfile_self_gen (t : List Q) (ts te m : Q) (ri : Bool)
    (h : ∀ a ∈ t.head?, ts ≤ a) :
    ∀ v ∈ (spikeProfile t t ts te m ri).2.1 ++ (spikeProfile t t ts te m ri).2.2, v = 0 := by
  obtain ⟨h1, h2, h3⟩ := C2_spkLoop_self (B4_env t t ts te m ri) rfl rfl
    (B4_init t t ts te).2.2.1 (B4_init t t ts te).1 (B4_init t t ts te).2.1
  have hres : spkLoop (B4_env t t ts te m ri) (B4_init t t ts te).1 (B4_init t t ts te).2.1
      (B4_init t t ts te).2.2.1 (B4_init t t ts te).1 (B4_init t t ts te).2.1
      (B4_init t t ts te).2.2.1 = B4_res t t ts te m ri := rfl
  rw [hres] at h1 h2 h3
  have hy0 : distAtT (B4_init t t ts te).1.isi (B4_init t t ts te).1.isi
      (B4_init t t ts te).2.2.2 (B4_init t t ts te).2.2.2 m ri = 0 := by
    rw [C2_init_self_s]; exact B4_distAtT_zero _ _ _ _
  have hfin : distAtT (B4_res t t ts te m ri).2.1.isi (B4_res t t ts te m ri).2.2.isi
      (B4_res t t ts te m ri).2.1.dtf (B4_res t t ts te m ri).2.2.dtf m ri = 0 := by
    by_cases hr : (B4_init t t ts te).2.2.1 = []
    · rw [h3 hr]
      dsimp only
      rw [C2_init_self_dtf t ts te h hr]; exact B4_distAtT_zero _ _ _ _
    · rw [(h2 hr).1, (h2 hr).2]; exact B4_distAtT_zero _ _ _ _
  have hs : ∀ v ∈ distAtT (B4_init t t ts te).1.isi (B4_init t t ts te).1.isi
      (B4_init t t ts te).2.2.2 (B4_init t t ts te).2.2.2 m ri
        :: (B4_res t t ts te m ri).1.map (·.2.2), v = 0 := by
    intro v hv
    rcases List.mem_cons.mp hv with hv | hv
    · rw [hv]; exact hy0
    · obtain ⟨ev, hev, rfl⟩ := List.mem_map.mp hv
      exact (h1 ev hev).2
  have he : ∀ v ∈ (B4_res t t ts te m ri).1.map (·.2.1), v = 0 := by
    intro v hv
    obtain ⟨ev, hev, rfl⟩ := List.mem_map.mp hv
    exact (h1 ev hev).1
  rw [B4_spikeProfile_unfold]
  split
  · intro v hv
    rcases List.mem_append.mp hv with hv | hv
    · exact hs v (C2_mem_dropLast _ v hv)
    · exact he v hv
  · intro v hv
    rcases List.mem_append.mp hv with hv | hv
    · exact hs v hv
    · rcases List.mem_append.mp hv with hv | hv
      · exact he v hv
      · rw [List.mem_singleton.mp hv]; exact hfin

/-- **identity**: for a valid (non-empty representation of a) train compared with itself every
    value of the SPIKE profile is 0 -/
theorem spikeProfile_self (t : List Q) (ts te m : Q) (ri : Bool) (hv : ValidNE t ts te)
    (_hlt : ts < te) :
    ∀ v ∈ (spikeProfile t t ts te m ri).2.1 ++ (spikeProfile t t ts te m ri).2.2, v = 0 := by
  apply C2_spikeProfile_self_gen
  intro a ha
  exact (hv.2.2 a (List.mem_of_mem_head? ha)).1

example : ValidNE [1, 3, 4] 0 6 ∧ (0 : Q) < 6 := ⟨⟨by decide, by decide, by decide⟩, by decide⟩
example : spikeProfile [1, 3, 4] [1, 3, 4] 0 6 0 false = ([0, 1, 3, 4, 6], [0, 0, 0, 0], [0, 0, 0, 0]) := by
  decide +kernel
/-- the F9 class `[ts]` needs no exclusion here -/
example : spikeProfile [0] [0] 0 6 0 false = ([0, 6], [0], [0]) := by decide +kernel
/-- a first spike before `ts` (invalid input) breaks the identity -/
example : spikeProfile [-1] [-1] 0 6 0 true = ([0, 6], [0], [6 / 7]) := by decide +kernel

/-! ### identity at API level -/

theorem C2_qsum_zero (l : List Q) (h : ∀ v ∈ l, v = 0) : qsum l = 0 := by
  induction l with
  | nil => rfl
  | cons a r ih =>
    simp only [qsum]
    rw [h a (by simp), ih (fun v hv => h v (by simp [hv])), add_zero]

theorem C2_nth_zero (l : List Q) (k : Nat) (h : ∀ v ∈ l, v = 0) : nth l k = 0 := by
  unfold nth
  rw [List.getD_eq_getElem?_getD]
  cases hk : l[k]? with
  | none => rfl
  | some v => exact h v (List.mem_of_getElem? hk)

theorem C2_pieces_zero (f : Pwl) (h1 : ∀ v ∈ f.y1, v = 0) (h2 : ∀ v ∈ f.y2, v = 0) :
    ∀ p ∈ f.pieces, p.yl = 0 ∧ p.yr = 0 := by
  intro p hp
  unfold Pwl.pieces at hp
  obtain ⟨q, hq, rfl⟩ := List.mem_map.mp hp
  have hq2 := (List.of_mem_zip (List.of_mem_zip (List.of_mem_zip hq).2).2)
  exact ⟨h1 _ hq2.1, h2 _ hq2.2⟩

theorem C2_pieceAt_zero (f : Pwl) (k : Nat) (t : Q) (h1 : ∀ v ∈ f.y1, v = 0)
    (h2 : ∀ v ∈ f.y2, v = 0) : (f.pieceAt k).at t = 0 := by
  unfold Pwl.pieceAt Piece.at
  simp only [C2_nth_zero _ _ h1, C2_nth_zero _ _ h2]
  simp

/-- a piecewise linear function whose values all vanish has integral 0 … -/
theorem C2_integralAll_zero (f : Pwl) (h1 : ∀ v ∈ f.y1, v = 0) (h2 : ∀ v ∈ f.y2, v = 0) :
    f.integralAll = 0 := by
  unfold Pwl.integralAll
  apply C2_qsum_zero
  intro v hv
  obtain ⟨p, hp, rfl⟩ := List.mem_map.mp hv
  obtain ⟨e1, e2⟩ := C2_pieces_zero f h1 h2 p hp
  rw [e1, e2]; simp

/-- … over every sub-interval the code accepts -/
theorem C2_integral_zero (f : Pwl) (a b : Q) (h1 : ∀ v ∈ f.y1, v = 0) (h2 : ∀ v ∈ f.y2, v = 0) :
    ∀ d, f.integral a b = some d → d = 0 := by
  intro d hd
  unfold Pwl.integral at hd
  dsimp only at hd
  split at hd
  · exact absurd hd (by simp)
  · split at hd
    · rw [C2_pieceAt_zero f _ _ h1 h2, C2_pieceAt_zero f _ _ h1 h2] at hd
      rw [← Option.some.inj hd]; simp
    · rw [C2_pieceAt_zero f _ _ h1 h2, C2_pieceAt_zero f _ _ h1 h2, C2_nth_zero _ _ h1,
        C2_nth_zero _ _ h2] at hd
      have hm : qsum ((((f.pieces.drop (ssRight f.x a)).take (ssLeft f.x b - 1 - ssRight f.x a))).map
          fun p => (p.xr - p.xl) * ((p.yl + p.yr) / 2)) = 0 := by
        apply C2_qsum_zero
        intro v hv
        obtain ⟨p, hp, rfl⟩ := List.mem_map.mp hv
        obtain ⟨e1, e2⟩ := C2_pieces_zero f h1 h2 p (List.mem_of_mem_drop (List.mem_of_mem_take hp))
        rw [e1, e2]; simp
      rw [hm] at hd
      rw [← Option.some.inj hd]; simp

/-- **identity, profile**: the SPIKE profile of a valid train with itself is identically 0
    (every `kw`: any MRTS, RI on or off, with or without reconciliation) -/
theorem C2_spikeProfileBi_self (kw : Kw) (a : Train) (ha : ValidTrain a) :
    (∀ v ∈ (spikeProfileBi kw a a).y1, v = 0) ∧ (∀ v ∈ (spikeProfileBi kw a a).y2, v = 0) := by
  rw [C2_spikeProfileBi_valid kw a a ha ha rfl rfl]
  have h := spikeProfile_self a.nonEmpty a.ts a.te kw.mrts kw.ri (nonEmpty_valid a ha) ha.1
  have e : spikeProfileBi kw.noRecon a a =
      ⟨(spikeProfile a.nonEmpty a.nonEmpty a.ts a.te kw.mrts kw.ri).1,
       (spikeProfile a.nonEmpty a.nonEmpty a.ts a.te kw.mrts kw.ri).2.1,
       (spikeProfile a.nonEmpty a.nonEmpty a.ts a.te kw.mrts kw.ri).2.2⟩ := by
    simp only [spikeProfileBi, prepBi_noRecon]
    rfl
  rw [e]
  exact ⟨fun v hv => h v (List.mem_append_left _ hv), fun v hv => h v (List.mem_append_right _ hv)⟩

/-- **identity, distance**: `spike_distance(st, st) = 0` over the whole recording -/
theorem C2_spikeDistanceBi_self (kw : Kw) (a : Train) (ha : ValidTrain a) (hi : kw.interval = none) :
    spikeDistanceBi kw a a = some 0 := by
  obtain ⟨h1, h2⟩ := C2_spikeProfileBi_self kw a ha
  unfold spikeDistanceBi pwlAvrgKw
  rw [hi]
  dsimp only
  unfold Pwl.avrgAll
  rw [C2_integralAll_zero _ h1 h2, zero_div]

/-- … and over every sub-interval for which the code returns a value -/
theorem C2_spikeDistanceBi_self_interval (kw : Kw) (a : Train) (ha : ValidTrain a) :
    ∀ d, spikeDistanceBi kw a a = some d → d = 0 := by
  intro d hd
  obtain ⟨h1, h2⟩ := C2_spikeProfileBi_self kw a ha
  unfold spikeDistanceBi pwlAvrgKw at hd
  split at hd
  · rw [← Option.some.inj hd]
    unfold Pwl.avrgAll
    rw [C2_integralAll_zero _ h1 h2, zero_div]
  · next x y _ =>
    unfold Pwl.avrg at hd
    cases hI : (spikeProfileBi kw a a).integral x y with
    | none => rw [hI] at hd; exact absurd hd (by simp)
    | some w =>
      rw [hI, Option.map_some] at hd
      rw [← Option.some.inj hd, C2_integral_zero _ x y h1 h2 w hI, zero_div]

example : ValidTrain exA ∧ ({ } : Kw).interval = none :=
  ⟨⟨by decide, by decide, by decide⟩, rfl⟩
example : spikeDistanceBi { recon := false } exA exA = some 0 := by decide +kernel
example : spikeDistanceBi { recon := false, interval := some (1/2, 7/2) } exA exA = some 0 := by
  decide +kernel

end PySpike
