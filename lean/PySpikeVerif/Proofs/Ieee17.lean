/-
  Proofs/Ieee17.lean — 17 significant decimal digits identify an IEEE-754 binary64 value.

  `roundSci p x` (Model/TextIO.lean) is the value of Python's `"{:.pe}".format(x)` (correctly rounded,
  p+1 significant digits). `save_spike_trains_to_txt(..., precision=P)` writes `"{:.Pe}"`, i.e. `roundSci P`
  (precision 17 ↦ p = 17, 18 significant digits; the library default 8 does not round-trip). The theorem below says that the printed value is STRICTLY closer
  to `x` than to any other double, so every correctly rounding decimal→binary parser (Python's `float`)
  returns `x` bit for bit.

  Proof outline (Matula / Goldberg):
  * `exponent10_le`: for `10^(-400) ≤ a` the bounded search returns `k` with `10^k ≤ a`
    (every non-zero double has `|x| ≥ 2^(-1074) ≥ 10^(-400)`), hence by `printed_value_accuracy`
    `|roundSci 16 x − x| ≤ 10^(k−16)/2 ≤ |x| / (2·10^16)`.
  * `double_gap`: two different doubles `x`, `y` satisfy `|x| ≤ |x − y| · 2^53` (relative spacing at
    least `2^(-53)`; this single inequality covers normal numbers, the shorter gap below a power of
    two, and subnormals, and needs no normalisation of the representation).
  * `2^53 < 10^16`, so `|x − y| > |x|/10^16 ≥ 2·|d − x|` and `|d − y| ≥ |x − y| − |d − x| > |d − x|`.
-/
import PySpikeVerif.Properties.C19
import PySpikeVerif.Proofs.Basic
import Mathlib.Tactic.NormNum
import Mathlib.Tactic.Positivity
import Mathlib.Tactic.Ring
import Mathlib.Tactic.Linarith
import Mathlib.Tactic.FieldSimp
namespace PySpike.Ieee
open PySpike

/-- finite IEEE-754 binary64 values as rationals: `m · 2^e` with `|m| < 2^53`, `-1074 ≤ e ≤ 971`
    (normal and subnormal numbers, ±0 as 0; the representation need not be normalised) -/
def IsDouble (x : Q) : Prop :=
  ∃ m e : Int, |m| < 2 ^ 53 ∧ -1074 ≤ e ∧ e ≤ 971 ∧ x = (m : Q) * (2 : Q) ^ e

/-- `x` is the unique double nearest to the decimal `q` (strictly: no tie) -/
def UniquelyNearest (q x : Q) : Prop :=
  IsDouble x ∧ ∀ y, IsDouble y → y ≠ x → |q - x| < |q - y|

/-! ### `pow10` and `exponent10` -/

theorem pow10_eq_zpow (e : Int) : pow10 e = (10 : Q) ^ e := by
  unfold pow10
  split
  · rename_i h
    conv_rhs => rw [← Int.toNat_of_nonneg h]
    rw [zpow_natCast]
  · rename_i h
    have h' : 0 ≤ -e := by omega
    have he : e = -((-e).toNat : Int) := by rw [Int.toNat_of_nonneg h']; ring
    conv_rhs => rw [he]
    rw [zpow_neg, zpow_natCast, one_div]

/-- the upward search never overshoots (whatever the fuel) -/
theorem exp10Up_le (fuel : Nat) : ∀ (x : Q) (e : Int), 1 ≤ x →
    (10 : Q) ^ (exp10Up x fuel e - e) ≤ x := by
  induction fuel with
  | zero => intro x e h; simpa [exp10Up] using h
  | succ n ih =>
    intro x e h
    unfold exp10Up
    split
    · simpa using h
    · rename_i h10
      have h10 : 10 ≤ x := not_lt.mp h10
      have h1 : (1 : Q) ≤ x / 10 := by rw [le_div_iff₀ (by norm_num)]; linarith
      have := ih (x / 10) (e + 1) h1
      have e1 : exp10Up (x / 10) n (e + 1) - e = (exp10Up (x / 10) n (e + 1) - (e + 1)) + 1 := by ring
      rw [e1, zpow_add_one₀ (by norm_num)]
      linarith

/-- the downward search reaches `[1, 10)` if the fuel suffices -/
theorem exp10Down_le (fuel : Nat) : ∀ (x : Q) (e : Int), 1 ≤ x * (10 : Q) ^ fuel →
    (10 : Q) ^ (exp10Down x fuel e - e) ≤ x := by
  induction fuel with
  | zero => intro x e h; simpa [exp10Down] using h
  | succ n ih =>
    intro x e h
    unfold exp10Down
    split
    · rename_i h1; simpa using h1
    · have := ih (x * 10) (e - 1) (by rw [pow_succ] at h; linarith)
      have e1 : exp10Down (x * 10) n (e - 1) - (e - 1) = (exp10Down (x * 10) n (e - 1) - e) + 1 := by ring
      rw [e1, zpow_add_one₀ (by norm_num)] at this
      linarith

/-- correctness (lower bound) of `exponent10` on the range of the non-zero doubles -/
theorem exponent10_le (a : Q) (ha : 1 ≤ a * (10 : Q) ^ 400) : (10 : Q) ^ exponent10 a ≤ a := by
  unfold exponent10
  split
  · rename_i h; simpa using exp10Up_le 400 a 0 h
  · simpa using exp10Down_le 400 a 0 ha

/-! ### spacing of doubles -/

theorem int_gap_left (M n : Int) (hM : |M| < 2 ^ 53) (hne : M ≠ n) : |M| ≤ |M - n| * 2 ^ 53 := by
  have h2 : (2 : Int) ^ 53 = 9007199254740992 := by norm_num
  rw [h2] at hM ⊢
  have := abs_lt.mp hM
  rcases abs_cases M with ⟨h1, _⟩ | ⟨h1, _⟩ <;> rcases abs_cases (M - n) with ⟨h3, _⟩ | ⟨h3, _⟩ <;>
    rw [h1, h3] <;> omega

theorem int_gap_right (M n : Int) (hn : |n| < 2 ^ 53) (hne : M ≠ n) : |M| ≤ |M - n| * 2 ^ 53 := by
  have h2 : (2 : Int) ^ 53 = 9007199254740992 := by norm_num
  rw [h2] at hn ⊢
  have := abs_lt.mp hn
  rcases abs_cases M with ⟨h1, _⟩ | ⟨h1, _⟩ <;> rcases abs_cases (M - n) with ⟨h3, _⟩ | ⟨h3, _⟩ <;>
    rw [h1, h3] <;> omega

theorem scaled_gap (M N g : Int) (h : |M| ≤ |M - N| * 2 ^ 53) :
    |(M : Q) * (2 : Q) ^ g| ≤ |(M : Q) * (2 : Q) ^ g - (N : Q) * (2 : Q) ^ g| * 2 ^ 53 := by
  have hpos : (0 : Q) < (2 : Q) ^ g := zpow_pos (by norm_num) _
  have hq : (|(M : Q)|) ≤ |(M : Q) - (N : Q)| * 2 ^ 53 := by exact_mod_cast h
  rw [← sub_mul, abs_mul, abs_mul, abs_of_pos hpos]
  calc |(M : Q)| * (2 : Q) ^ g ≤ (|(M : Q) - (N : Q)| * 2 ^ 53) * (2 : Q) ^ g :=
        mul_le_mul_of_nonneg_right hq hpos.le
    _ = _ := by ring

theorem zpow_split (e f : Int) (h : e ≤ f) :
    (2 : Q) ^ f = (((2 : Int) ^ (f - e).toNat : Int) : Q) * (2 : Q) ^ e := by
  have hf : f = ((f - e).toNat : Int) + e := by rw [Int.toNat_of_nonneg (by omega)]; ring
  conv_lhs => rw [hf]
  rw [zpow_add₀ (by norm_num), zpow_natCast]
  push_cast
  ring

/-- relative spacing of the doubles: two different doubles differ by at least `|x| / 2^53` -/
theorem double_gap (x y : Q) (hx : IsDouble x) (hy : IsDouble y) (hne : y ≠ x) :
    |x| ≤ |x - y| * 2 ^ 53 := by
  obtain ⟨m, e, hm, -, -, rfl⟩ := hx
  obtain ⟨n, f, hn, -, -, rfl⟩ := hy
  by_cases hef : e ≤ f
  · have hs := zpow_split e f hef
    set d := (f - e).toNat
    have hy' : (n : Q) * (2 : Q) ^ f = ((n * 2 ^ d : Int) : Q) * (2 : Q) ^ e := by
      rw [hs]; push_cast; ring
    rw [hy'] at hne ⊢
    apply scaled_gap
    apply int_gap_left _ _ hm
    intro h
    apply hne
    rw [h]
  · have hs := zpow_split f e (by omega)
    set d := (e - f).toNat
    have hx' : (m : Q) * (2 : Q) ^ e = ((m * 2 ^ d : Int) : Q) * (2 : Q) ^ f := by
      rw [hs]; push_cast; ring
    rw [hx'] at hne ⊢
    apply scaled_gap
    apply int_gap_right _ _ hn
    intro h
    apply hne
    rw [h]

/-- a non-zero double is at least `2^(-1074)` in absolute value, so within the reach of `exponent10` -/
theorem double_range (x : Q) (hx : IsDouble x) (h0 : x ≠ 0) : 1 ≤ |x| * (10 : Q) ^ 400 := by
  obtain ⟨m, e, -, he, -, rfl⟩ := hx
  have hm : m ≠ 0 := by rintro rfl; simp at h0
  have hm1 : (1 : Q) ≤ |(m : Q)| := by
    have : (1 : Int) ≤ |m| := Int.one_le_abs hm
    exact_mod_cast this
  have hpos : (0 : Q) < (2 : Q) ^ e := zpow_pos (by norm_num) _
  have hmono : (2 : Q) ^ (-1074 : Int) ≤ (2 : Q) ^ e := zpow_le_zpow_right₀ (by norm_num) he
  have hnum : (1 : Q) ≤ (2 : Q) ^ (-1074 : Int) * (10 : Q) ^ 400 := by
    have hn : (2 : Nat) ^ 1074 ≤ 10 ^ 400 := by decide +kernel
    have hq : (2 : Q) ^ 1074 ≤ (10 : Q) ^ 400 := by exact_mod_cast hn
    rw [zpow_neg, zpow_ofNat, inv_mul_eq_div, le_div_iff₀ (by positivity), one_mul]
    exact hq
  rw [abs_mul, abs_of_pos hpos]
  have h10 : (0 : Q) < (10 : Q) ^ 400 := by positivity
  calc (1 : Q) ≤ (2 : Q) ^ (-1074 : Int) * (10 : Q) ^ 400 := hnum
    _ ≤ (2 : Q) ^ e * (10 : Q) ^ 400 := mul_le_mul_of_nonneg_right hmono h10.le
    _ = 1 * (2 : Q) ^ e * (10 : Q) ^ 400 := by rw [one_mul]
    _ ≤ |(m : Q)| * (2 : Q) ^ e * (10 : Q) ^ 400 := by
        apply mul_le_mul_of_nonneg_right _ h10.le
        exact mul_le_mul_of_nonneg_right hm1 hpos.le

/-- the 17-digit print of a double is within `|x| / (2·10^16)` of it -/
theorem print17_close (x : Q) (hx : IsDouble x) (h0 : x ≠ 0) :
    |roundSci 16 x - x| ≤ |x| * (1 / (2 * 10 ^ 16)) := by
  have hacc := C19.printed_value_accuracy 16 x
  have hk := exponent10_le (qabs x) (by rw [qabs_eq_abs]; exact double_range x hx h0)
  rw [qabs_eq_abs] at hk hacc
  rw [pow10_eq_zpow] at hacc
  set k := exponent10 |x|
  have hk0 : (0 : Q) < (10 : Q) ^ k := zpow_pos (by norm_num) _
  have e1 : (1 : Q) / (2 * (10 : Q) ^ (((16 : Nat) : Int) - k)) = (10 : Q) ^ k * (1 / (2 * 10 ^ 16)) := by
    rw [zpow_sub₀ (by norm_num), zpow_natCast]
    field_simp
  rw [e1] at hacc
  calc _ ≤ (10 : Q) ^ k * (1 / (2 * 10 ^ 16)) := hacc
    _ ≤ |x| * (1 / (2 * 10 ^ 16)) := mul_le_mul_of_nonneg_right hk (by positivity)

/-- 17 significant digits (`"{:.16e}"`) round-trip every double -/
theorem seventeen_digits_identify_a_double (x : Q) (hx : IsDouble x) :
    UniquelyNearest (roundSci 16 x) x := by
  refine ⟨hx, fun y hy hne => ?_⟩
  by_cases h0 : x = 0
  · subst h0
    have : roundSci 16 (0 : Q) = 0 := by simp [roundSci]
    rw [this]
    simpa using hne
  · have hgap := double_gap x y hx hy hne
    have hclose := print17_close x hx h0
    set d := roundSci 16 x
    have hxpos : 0 < |x| := abs_pos.mpr h0
    have htri : |x - y| ≤ |d - x| + |d - y| := by
      have : x - y = (d - y) - (d - x) := by ring
      rw [this]
      have := abs_sub (d - y) (d - x)
      linarith
    have hnum : |x| * (1 / 10 ^ 16) < |x| * (1 / 2 ^ 53) :=
      mul_lt_mul_of_pos_left (by norm_num) hxpos
    have hgap' : |x| * (1 / 2 ^ 53) ≤ |x - y| := by
      rw [mul_one_div, div_le_iff₀ (by positivity)]; exact hgap
    have hhalf : |x| * (1 / (2 * 10 ^ 16)) = |x| * (1 / 10 ^ 16) / 2 := by ring
    linarith

/-- … 16 digits do not: a concrete double whose 16-digit print is closer to its neighbour
    (state and prove a concrete witness, e.g. with `decide +kernel` / `norm_num`; pick any valid one) -/
theorem sixteen_digits_do_not : ∃ x y : Q, IsDouble x ∧ IsDouble y ∧ y ≠ x ∧ |roundSci 15 x - y| ≤ |roundSci 15 x - x| := by
  have hr : roundSci 15 (10000000000000002 : Q) = 10000000000000000 := by decide +kernel
  refine ⟨10000000000000002, 10000000000000000, ⟨5000000000000001, 1, ?_, by norm_num, by norm_num, by norm_num⟩,
    ⟨5000000000000000, 1, ?_, by norm_num, by norm_num, by norm_num⟩, by norm_num, ?_⟩
  · norm_num
  · norm_num
  · rw [hr]; norm_num

/-! ### generalisation: any precision `p ≥ 16` (`"{:.pe}"`, `p+1 ≥ 17` significant digits) -/

/-- the `(p+1)`-digit print of a double is within `|x| / (2·10^p)` of it -/
theorem print_close (p : Nat) (x : Q) (hx : IsDouble x) (h0 : x ≠ 0) :
    |roundSci p x - x| ≤ |x| * (1 / (2 * 10 ^ p)) := by
  have hacc := C19.printed_value_accuracy p x
  have hk := exponent10_le (qabs x) (by rw [qabs_eq_abs]; exact double_range x hx h0)
  rw [qabs_eq_abs] at hk hacc
  rw [pow10_eq_zpow] at hacc
  set k := exponent10 |x|
  have hk0 : (0 : Q) < (10 : Q) ^ k := zpow_pos (by norm_num) _
  have hp0 : (0 : Q) < (10 : Q) ^ p := by positivity
  have e1 : (1 : Q) / (2 * (10 : Q) ^ ((p : Int) - k)) = (10 : Q) ^ k * (1 / (2 * 10 ^ p)) := by
    rw [zpow_sub₀ (by norm_num), zpow_natCast]
    field_simp
  rw [e1] at hacc
  calc _ ≤ (10 : Q) ^ k * (1 / (2 * 10 ^ p)) := hacc
    _ ≤ |x| * (1 / (2 * 10 ^ p)) := mul_le_mul_of_nonneg_right hk (by positivity)

/-- every precision `p ≥ 16` (at least 17 significant digits) round-trips every double -/
theorem digits_ge_17_identify_a_double (p : Nat) (hp : 16 ≤ p) (x : Q) (hx : IsDouble x) :
    UniquelyNearest (roundSci p x) x := by
  refine ⟨hx, fun y hy hne => ?_⟩
  by_cases h0 : x = 0
  · subst h0
    have : roundSci p (0 : Q) = 0 := by simp [roundSci]
    rw [this]
    simpa using hne
  · have hgap := double_gap x y hx hy hne
    have hclose := print_close p x hx h0
    set d := roundSci p x
    have hxpos : 0 < |x| := abs_pos.mpr h0
    have htri : |x - y| ≤ |d - x| + |d - y| := by
      have : x - y = (d - y) - (d - x) := by ring
      rw [this]
      have := abs_sub (d - y) (d - x)
      linarith
    have hpow : (10 : Q) ^ 16 ≤ (10 : Q) ^ p := pow_le_pow_right₀ (by norm_num) hp
    have hinv : (1 : Q) / (2 * 10 ^ p) ≤ 1 / (2 * 10 ^ 16) :=
      one_div_le_one_div_of_le (by positivity) (by linarith)
    have hclose' : |d - x| ≤ |x| * (1 / (2 * 10 ^ 16)) :=
      hclose.trans (mul_le_mul_of_nonneg_left hinv hxpos.le)
    have hnum : |x| * (1 / 10 ^ 16) < |x| * (1 / 2 ^ 53) :=
      mul_lt_mul_of_pos_left (by norm_num) hxpos
    have hgap' : |x| * (1 / 2 ^ 53) ≤ |x - y| := by
      rw [mul_one_div, div_le_iff₀ (by positivity)]; exact hgap
    have hhalf : |x| * (1 / (2 * 10 ^ 16)) = |x| * (1 / 10 ^ 16) / 2 := by ring
    linarith

/-- a whole saved line: at precision `p ≥ 16` every printed value of a line of doubles is uniquely
    nearest to the double it was printed from (so a correctly rounding parser reloads the line
    bit for bit; `C19.reload p s = sortQ (s.map (roundSci p))`) -/
theorem reload_precision_ge_16 (p : Nat) (hp : 16 ≤ p) (s : List Q) (hs : ∀ x ∈ s, IsDouble x) :
    ∀ x ∈ s, UniquelyNearest (roundSci p x) x :=
  fun x hxs => digits_ge_17_identify_a_double p hp x (hs x hxs)

/-! ### the overflow threshold `±2^1024` as a competitor

A correctly rounding parser also compares a decimal against the overflow threshold (halfway between the
largest double and the would-be next value `2^1024`). `2^1024` is not `IsDouble`; the spacing argument
however never uses the upper exponent bound, so it is repeated for `IsBinary53` (53-bit significand,
arbitrary exponent), which contains the doubles and `±2^1024`. -/

/-- `m · 2^e` with `|m| < 2^53`, exponent unrestricted -/
def IsBinary53 (x : Q) : Prop :=
  ∃ m e : Int, |m| < 2 ^ 53 ∧ x = (m : Q) * (2 : Q) ^ e

theorem IsDouble.isBinary53 {x : Q} (hx : IsDouble x) : IsBinary53 x := by
  obtain ⟨m, e, hm, -, -, h⟩ := hx
  exact ⟨m, e, hm, h⟩

/-- `double_gap` without the exponent bounds -/
theorem binary53_gap (x y : Q) (hx : IsBinary53 x) (hy : IsBinary53 y) (hne : y ≠ x) :
    |x| ≤ |x - y| * 2 ^ 53 := by
  obtain ⟨m, e, hm, rfl⟩ := hx
  obtain ⟨n, f, hn, rfl⟩ := hy
  by_cases hef : e ≤ f
  · have hs := zpow_split e f hef
    set d := (f - e).toNat
    have hy' : (n : Q) * (2 : Q) ^ f = ((n * 2 ^ d : Int) : Q) * (2 : Q) ^ e := by
      rw [hs]; push_cast; ring
    rw [hy'] at hne ⊢
    apply scaled_gap
    apply int_gap_left _ _ hm
    intro h
    apply hne
    rw [h]
  · have hs := zpow_split f e (by omega)
    set d := (e - f).toNat
    have hx' : (m : Q) * (2 : Q) ^ e = ((m * 2 ^ d : Int) : Q) * (2 : Q) ^ f := by
      rw [hs]; push_cast; ring
    rw [hx'] at hne ⊢
    apply scaled_gap
    apply int_gap_right _ _ hn
    intro h
    apply hne
    rw [h]

/-- every double is strictly inside `(-2^1024, 2^1024)` -/
theorem double_abs_lt (x : Q) (hx : IsDouble x) : |x| < (2 : Q) ^ (1024 : Int) := by
  obtain ⟨m, e, hm, -, he, rfl⟩ := hx
  have hpos : (0 : Q) < (2 : Q) ^ e := zpow_pos (by norm_num) _
  have hmq : |(m : Q)| < 2 ^ 53 := by exact_mod_cast hm
  have hmono : (2 : Q) ^ e ≤ (2 : Q) ^ (971 : Int) := zpow_le_zpow_right₀ (by norm_num) he
  have hsplit : (2 : Q) ^ (1024 : Int) = 2 ^ 53 * (2 : Q) ^ (971 : Int) := by
    rw [show (1024 : Int) = ((53 : Nat) : Int) + 971 by norm_num, zpow_add₀ (by norm_num), zpow_natCast]
  rw [abs_mul, abs_of_pos hpos, hsplit]
  exact mul_lt_mul hmq hmono hpos (by positivity)

/-- the closeness argument of `digits_ge_17_identify_a_double`, for any competitor `y` in `IsBinary53` -/
theorem print_closer_than_binary53 (p : Nat) (hp : 16 ≤ p) (x : Q) (hx : IsDouble x)
    (y : Q) (hy : IsBinary53 y) (hne : y ≠ x) : |roundSci p x - x| < |roundSci p x - y| := by
  by_cases h0 : x = 0
  · subst h0
    have : roundSci p (0 : Q) = 0 := by simp [roundSci]
    rw [this]
    simpa using hne
  · have hgap := binary53_gap x y hx.isBinary53 hy hne
    have hclose := print_close p x hx h0
    set d := roundSci p x
    have hxpos : 0 < |x| := abs_pos.mpr h0
    have htri : |x - y| ≤ |d - x| + |d - y| := by
      have : x - y = (d - y) - (d - x) := by ring
      rw [this]
      have := abs_sub (d - y) (d - x)
      linarith
    have hpow : (10 : Q) ^ 16 ≤ (10 : Q) ^ p := pow_le_pow_right₀ (by norm_num) hp
    have hinv : (1 : Q) / (2 * 10 ^ p) ≤ 1 / (2 * 10 ^ 16) :=
      one_div_le_one_div_of_le (by positivity) (by linarith)
    have hclose' : |d - x| ≤ |x| * (1 / (2 * 10 ^ 16)) :=
      hclose.trans (mul_le_mul_of_nonneg_left hinv hxpos.le)
    have hnum : |x| * (1 / 10 ^ 16) < |x| * (1 / 2 ^ 53) :=
      mul_lt_mul_of_pos_left (by norm_num) hxpos
    have hgap' : |x| * (1 / 2 ^ 53) ≤ |x - y| := by
      rw [mul_one_div, div_le_iff₀ (by positivity)]; exact hgap
    have hhalf : |x| * (1 / (2 * 10 ^ 16)) = |x| * (1 / 10 ^ 16) / 2 := by ring
    linarith

/-- the printed value of a double is strictly closer to it than to the overflow value `±2^1024`, hence
    strictly below the overflow threshold `2^1024 - 2^970` in absolute value: a correctly rounding
    parser never overflows on it -/
theorem print_farther_from_overflow (p : Nat) (hp : 16 ≤ p) (x : Q) (hx : IsDouble x) :
    |roundSci p x - x| < |roundSci p x - (2 : Q) ^ (1024 : Int)| ∧
    |roundSci p x - x| < |roundSci p x - (-(2 : Q) ^ (1024 : Int))| := by
  have hlt := abs_lt.mp (double_abs_lt x hx)
  constructor
  · apply print_closer_than_binary53 p hp x hx _ ⟨1, 1024, by norm_num, by norm_num⟩
    intro h; rw [h] at hlt; exact lt_irrefl _ hlt.2
  · apply print_closer_than_binary53 p hp x hx _ ⟨-1, 1024, by norm_num, by norm_num⟩
    intro h; rw [← h] at hlt; exact lt_irrefl _ hlt.1

end PySpike.Ieee
