/-
  Proofs/OrderApi.lean (work package F3) — C04 / C05 at the public API:
  1. `spikeDirectionality` against the pairwise specification `dirSpec1` (sum of A's values, divided
     by A's spike count when normalised, 0 for an empty A);
  2. the entries of `spikeDirectionalityMatrix` as bivariate values, every `kw`, every `indices`;
  3. the synfire identity for valid lists with any `kw.recon` and any valid `indices`;
  4. multivariate spike-train order = ratio of the summed multivariate order profile, for valid
     lists with any `kw.recon` and any valid `indices`.
-/
import PySpikeVerif.Proofs.OrderLaws
import PySpikeVerif.Proofs.DirLaws
import PySpikeVerif.Proofs.ApiReconcile
import PySpikeVerif.Proofs.MultiLaws
import PySpikeVerif.Proofs.FilterLaws
import PySpikeVerif.Proofs.SpikeSymm

namespace PySpike
open PySpike.C01

/-! ## 0. helpers: valid lists are fixed points of the preparation -/

theorem F3_valid_of_B5 {ts te : Q} {L : List Train} (hv : B5_ValidList ts te L) : C4_Valid ts te L := by
  intro t ht
  obtain ⟨⟨-, hs, hb⟩, h1, h2⟩ := hv t ht
  refine ⟨h1, h2, hs, ?_⟩
  intro x hx
  have := hb x hx
  rw [h1, h2] at this
  exact this

theorem F3_prep_valid (kw : Kw) {ts te : Q} {L : List Train} (hv : C4_Valid ts te L) : prep kw L = L := by
  unfold prep
  split
  · exact reconcile_id_of_valid L ts te hv
  · rfl

theorem F3_prepBi_valid (kw : Kw) {ts te : Q} {a b : Train} (hv : C4_Valid ts te [a, b]) :
    prepBi kw a b = (a, b) := by
  unfold prepBi
  split
  · exact C4_reconcileBi_id_of_valid hv
  · rfl

theorem F3_valid_pair {ts te : Q} {L : List Train} (hv : C4_Valid ts te L) {i j : Nat}
    (hi : i < L.length) (hj : j < L.length) : C4_Valid ts te [tr L i, tr L j] := by
  intro t ht
  simp only [List.mem_cons, List.not_mem_nil, or_false] at ht
  rcases ht with rfl | rfl
  · exact hv _ (B5_tr_mem L i hi)
  · exact hv _ (B5_tr_mem L j hj)

/-- the hypothesis under which the second (per-pair) reconciliation of the value routes is the
    identity: the call reconciles (default), or the list is valid on common edges -/
def F3_Ok (kw : Kw) (L : List Train) : Prop :=
  kw.recon = true ∨ ∃ ts te, C4_Valid ts te L

theorem F3_Ok_of_B5 (kw : Kw) {ts te : Q} {L : List Train} (hv : B5_ValidList ts te L) : F3_Ok kw L :=
  Or.inr ⟨ts, te, F3_valid_of_B5 hv⟩

/-- two trains of the prepared list are a fixed point of the pair reconciliation -/
theorem F3_reconcileBi_fix (kw : Kw) (L : List Train) (h : F3_Ok kw L) (i j : Nat)
    (hi : i < (prep kw L).length) (hj : j < (prep kw L).length) :
    reconcileBi (tr (prep kw L) i) (tr (prep kw L) j) = (tr (prep kw L) i, tr (prep kw L) j) := by
  cases hr : kw.recon with
  | true =>
    have hp : prep kw L = reconcile L := by simp [prep, hr]
    rw [hp, reconcile_length] at hi hj
    rw [hp]
    exact B2_reconcileBi_of_reconciled L i j hi hj
  | false =>
    rcases h with h | ⟨ts, te, hv⟩
    · rw [hr] at h; exact absurd h (by simp)
    · rw [F3_prep_valid kw hv] at hi hj ⊢
      exact C4_reconcileBi_id_of_valid (F3_valid_pair hv hi hj)

theorem F3_idx_lt {ids : List Nat} {n : Nat} (hv : idxValid ids n = true) {k : Nat} (hk : k ∈ ids) :
    k < n := by
  simp only [idxValid, List.all_eq_true, decide_eq_true_eq] at hv
  exact hv k hk

theorem F3_getD_mem (ids : List Nat) (i : Nat) (hi : i < ids.length) : ids.getD i 0 ∈ ids := by
  simp [List.getD_eq_getElem?_getD, List.getElem?_eq_getElem hi]

/-! ## 1. `spike_directionality` against the specification -/

/-- **general form** (no hypothesis): the value route always reconciles the pair, so the sum runs
    over the pairwise definition `dirSpec1` on the reconciled trains; the normalisation uses the
    spike count of the first train *as prepared by the call* (`Reconcile=False`: the raw train) -/
theorem F3_spikeDirectionality_eq_spec (kw : Kw) (normalize : Bool) (a b : Train) :
    spikeDirectionality kw normalize a b =
      (let a' := (reconcileBi a b).1
       let b' := (reconcileBi a b).2
       let d := qsum (dirSpec1 a'.spikes b'.spikes (trueMax a'.ts a'.te kw.maxTau) kw.mrts)
       let c : Q := ((prepBi kw a b).1.spikes.length : Q)
       if normalize then (if c = 0 then 0 else d / c) else d) := by
  have hs := B2_reconcileBi_sorted a b
  unfold spikeDirectionality
  simp only
  rw [B2_dirValues_pair { kw with recon := true } _ _ _ (B2_prep_prepBi kw a b)]
  simp only [List.headD_cons]
  rw [D5_dirProfile_eq_spec _ _ _ _ _ _ hs.1 hs.2]

theorem F3_natCast_length_eq_zero {α} (l : List α) : ((l.length : Q) = 0) ↔ l = [] := by
  rw [Nat.cast_eq_zero, List.length_eq_zero_iff]

/-- **C04, public directionality = sum of A's values (÷ |A|)** for a valid pair on common edges,
    every keyword record: `D(A,B) = Σ_k mark(A_k)` with `mark = +1` (leads a coincidence), `-1`
    (follows), `0` (otherwise); normalised: divided by the number of spikes of A, and 0 when A has
    no spikes -/
theorem F3_directionality_is_sum (kw : Kw) (normalize : Bool) (a b : Train) (ts te : Q)
    (hv : C4_Valid ts te [a, b]) :
    spikeDirectionality kw normalize a b =
      (let d := qsum (dirSpec1 a.spikes b.spikes (trueMax a.ts a.te kw.maxTau) kw.mrts)
       if normalize then (if a.spikes = [] then 0 else d / (a.spikes.length : Q)) else d) := by
  rw [F3_spikeDirectionality_eq_spec, F3_prepBi_valid kw hv, C4_reconcileBi_id_of_valid hv]
  simp only [F3_natCast_length_eq_zero]

/-- the same with Mathlib's `List.sum` -/
theorem F3_directionality_is_sum' (kw : Kw) (normalize : Bool) (a b : Train) (ts te : Q)
    (hv : C4_Valid ts te [a, b]) :
    spikeDirectionality kw normalize a b =
      (let d := (dirSpec1 a.spikes b.spikes (trueMax a.ts a.te kw.maxTau) kw.mrts).sum
       if normalize then (if a.spikes = [] then 0 else d / (a.spikes.length : Q)) else d) := by
  rw [F3_directionality_is_sum kw normalize a b ts te hv, B6_qsum_eq_sum]

/-- … and for the default reconciling call on arbitrary trains: the same formula on the reconciled
    pair -/
theorem F3_directionality_is_sum_recon (kw : Kw) (normalize : Bool) (a b : Train)
    (hr : kw.recon = true) :
    spikeDirectionality kw normalize a b =
      (let a' := (reconcileBi a b).1
       let b' := (reconcileBi a b).2
       let d := qsum (dirSpec1 a'.spikes b'.spikes (trueMax a'.ts a'.te kw.maxTau) kw.mrts)
       if normalize then (if a'.spikes = [] then 0 else d / (a'.spikes.length : Q)) else d) := by
  rw [F3_spikeDirectionality_eq_spec]
  simp only [prepBi, hr, if_true, F3_natCast_length_eq_zero]

/-- corollary: the un-normalised value is the plain sum for every input -/
theorem F3_directionality_unnormalized (kw : Kw) (a b : Train) :
    spikeDirectionality kw false a b =
      qsum (dirSpec1 (reconcileBi a b).1.spikes (reconcileBi a b).2.spikes
        (trueMax (reconcileBi a b).1.ts (reconcileBi a b).1.te kw.maxTau) kw.mrts) := by
  rw [F3_spikeDirectionality_eq_spec]
  simp

def F3_exA : Train := ⟨[1, 5, 7], 0, 10⟩
def F3_exB : Train := ⟨[2, 5, 9], 0, 10⟩

theorem F3_exAB_valid : C4_Valid 0 10 [F3_exA, F3_exB] := by
  intro t ht
  simp only [List.mem_cons, List.not_mem_nil, or_false] at ht
  rcases ht with rfl | rfl
  · refine ⟨rfl, rfl, by decide +kernel, ?_⟩
    intro x hx
    simp only [F3_exA, List.mem_cons, List.not_mem_nil, or_false] at hx
    rcases hx with rfl | rfl | rfl <;> norm_num
  · refine ⟨rfl, rfl, by decide +kernel, ?_⟩
    intro x hx
    simp only [F3_exB, List.mem_cons, List.not_mem_nil, or_false] at hx
    rcases hx with rfl | rfl | rfl <;> norm_num

example : C4_Valid 0 10 [F3_exA, F3_exB] := F3_exAB_valid
example : ({} : Kw).recon = true := rfl
/-- the value of the example: A leads once (1 → 2), the tie at 5 and the far spikes count 0 -/
example : spikeDirectionality {} true F3_exA F3_exB = 1 / 3 := by
  rw [F3_directionality_is_sum {} true F3_exA F3_exB 0 10 F3_exAB_valid]
  decide +kernel

/-! ## 3. synfire identity in general -/

/-- **synfire identity** on the prepared list, for a reconciling call or a valid list, and every
    valid `indices` selection -/
theorem F3_synfire_prep (kw : Kw) (idx : Option (List Nat)) (L : List Train) (h : F3_Ok kw L)
    (hv : idxValid (resolveIdx idx (prep kw L).length) (prep kw L).length = true) :
    spikeTrainOrderMulti kw idx L =
      (let L' := prep kw L
       let ids := resolveIdx idx L'.length
       let T := qsum (ids.map fun i => ((tr L' i).spikes.length : Q))
       if ((ids.length : Q) - 1) * T = 0 then 1
       else 2 * B2_upperSum (spikeDirectionalityMatrix kw false idx L) ids.length
          / (((ids.length : Q) - 1) * T)) := by
  rw [B2_spikeTrainOrderMulti_eq_dir]
  simp only
  have hN : qsum ((pairsOf (resolveIdx idx (prep kw L).length)).map fun p =>
          ((reconcileBi (tr (prep kw L) p.1) (tr (prep kw L) p.2)).1.spikes.length : Q)
            + ((reconcileBi (tr (prep kw L) p.1) (tr (prep kw L) p.2)).2.spikes.length : Q))
      = (((resolveIdx idx (prep kw L).length).length : Q) - 1)
          * qsum ((resolveIdx idx (prep kw L).length).map fun i =>
              ((tr (prep kw L) i).spikes.length : Q)) := by
    rw [← B2_pairs_count]
    congr 1
    apply List.map_congr_left
    intro p hp
    have hm := mem_pairsOf hp
    rw [F3_reconcileBi_fix kw L h p.1 p.2 (F3_idx_lt hv hm.1) (F3_idx_lt hv hm.2)]
  rw [hN]

/-- **C04 synfire identity, valid lists, any `kw.recon`, any `indices`** (`idx = none`: all trains):
    `spike_train_order = 2 · (upper-triangle sum of the un-normalised directionality matrix) /
    ((n − 1) · T)`, `n` the number of selected trains, `T` their total number of spikes, and 1 when
    `(n − 1) · T = 0` -/
theorem F3_synfire_identity (kw : Kw) (idx : Option (List Nat)) (L : List Train) (ts te : Q)
    (hv : C4_Valid ts te L) (hl : idxValid (resolveIdx idx L.length) L.length = true) :
    spikeTrainOrderMulti kw idx L =
      (let ids := resolveIdx idx L.length
       let n := ids.length
       let T := qsum (ids.map fun i => ((tr L i).spikes.length : Q))
       if ((n : Q) - 1) * T = 0 then 1
       else 2 * B2_upperSum (spikeDirectionalityMatrix kw false idx L) n / (((n : Q) - 1) * T)) := by
  have hp := F3_prep_valid kw hv
  have h := F3_synfire_prep kw idx L (Or.inr ⟨ts, te, hv⟩) (by rw [hp]; exact hl)
  rw [hp] at h
  exact h

/-- the statement of the work package: `B5_ValidList`, `some idx` -/
theorem F3_synfire_identity_indices (kw : Kw) (idx : List Nat) (L : List Train) (ts te : Q)
    (hv : B5_ValidList ts te L) (hl : idxValid idx L.length = true) :
    spikeTrainOrderMulti kw (some idx) L =
      (let n := idx.length
       let T := qsum (idx.map fun i => ((tr L i).spikes.length : Q))
       if ((n : Q) - 1) * T = 0 then 1
       else 2 * B2_upperSum (spikeDirectionalityMatrix kw false (some idx) L) n
          / (((n : Q) - 1) * T)) :=
  F3_synfire_identity kw (some idx) L ts te (F3_valid_of_B5 hv) hl

theorem F3_map_range_tr (L : List Train) (f : Train → Q) :
    ((List.range L.length).map fun i => f (tr L i)) = L.map f := by
  apply List.ext_getElem
  · simp
  · intro i h1 h2
    simp only [List.length_map, List.length_range] at h1
    simp [tr, List.getD_eq_getElem?_getD, List.getElem?_eq_getElem h1]

/-- … and all trains (`indices=None`), any `kw.recon` -/
theorem F3_synfire_identity_all (kw : Kw) (L : List Train) (ts te : Q) (hv : B5_ValidList ts te L) :
    spikeTrainOrderMulti kw none L =
      (let n := L.length
       let T := qsum (L.map fun t => (t.spikes.length : Q))
       if ((n : Q) - 1) * T = 0 then 1
       else 2 * B2_upperSum (spikeDirectionalityMatrix kw false none L) n / (((n : Q) - 1) * T)) := by
  rw [F3_synfire_identity kw none L ts te (F3_valid_of_B5 hv) (B2_idxValid_range _)]
  simp only [resolveIdx, List.length_range, F3_map_range_tr L (fun t => (t.spikes.length : Q))]

/-- default call (`Reconcile=True`), arbitrary trains, any valid `indices`: the identity holds on
    the reconciled trains -/
theorem F3_synfire_identity_recon (kw : Kw) (idx : List Nat) (L : List Train) (hr : kw.recon = true)
    (hl : idxValid idx L.length = true) :
    spikeTrainOrderMulti kw (some idx) L =
      (let L' := reconcile L
       let n := idx.length
       let T := qsum (idx.map fun i => ((tr L' i).spikes.length : Q))
       if ((n : Q) - 1) * T = 0 then 1
       else 2 * B2_upperSum (spikeDirectionalityMatrix kw false (some idx) L) n
          / (((n : Q) - 1) * T)) := by
  have hp : prep kw L = reconcile L := by simp [prep, hr]
  have h := F3_synfire_prep kw (some idx) L (Or.inl hr)
    (by rw [hp, reconcile_length]; exact hl)
  rw [hp] at h
  exact h

def F3_exL : List Train := [⟨[1, 5, 9], 0, 10⟩, ⟨[2, 5], 0, 10⟩, ⟨[1, 4, 8], 0, 10⟩]

theorem F3_exL_valid : B5_ValidList 0 10 F3_exL := by
  intro t ht
  simp only [F3_exL, List.mem_cons, List.not_mem_nil, or_false] at ht
  rcases ht with rfl | rfl | rfl
  · refine ⟨⟨by norm_num, by decide +kernel, ?_⟩, rfl, rfl⟩
    intro x hx
    simp only [List.mem_cons, List.not_mem_nil, or_false] at hx
    rcases hx with rfl | rfl | rfl <;> norm_num
  · refine ⟨⟨by norm_num, by decide +kernel, ?_⟩, rfl, rfl⟩
    intro x hx
    simp only [List.mem_cons, List.not_mem_nil, or_false] at hx
    rcases hx with rfl | rfl <;> norm_num
  · refine ⟨⟨by norm_num, by decide +kernel, ?_⟩, rfl, rfl⟩
    intro x hx
    simp only [List.mem_cons, List.not_mem_nil, or_false] at hx
    rcases hx with rfl | rfl | rfl <;> norm_num

example : B5_ValidList 0 10 F3_exL ∧ idxValid [2, 0] F3_exL.length = true :=
  ⟨F3_exL_valid, by decide⟩

/-! ## 4. multivariate spike-train order = ratio of the summed multivariate order profile -/

theorem F3_orderValues_fix (kw : Kw) (a b : Train) (h : reconcileBi a b = (a, b)) :
    orderValues kw a b = (orderProfileBi kw.noRecon a b).integralAll := by
  unfold orderValues orderProfileBi
  simp only [prepBi, if_true, Kw.noRecon, Bool.false_eq_true, if_false, h]

/-- on the prepared list, for a reconciling call or a valid list, every valid `indices` selection
    with at least one pair -/
theorem F3_order_multi_ratio_prep (kw : Kw) (idx : Option (List Nat)) (L : List Train)
    (h : F3_Ok kw L)
    (hv : idxValid (resolveIdx idx (prep kw L).length) (prep kw L).length = true)
    (h2 : 2 ≤ (resolveIdx idx (prep kw L).length).length) :
    spikeTrainOrderMulti kw idx L = syncRatio ((orderProfileMulti kw idx L).integralAll) := by
  rw [D5_spikeTrainOrderMulti_eq_ratio]
  unfold orderProfileMulti
  simp only
  rw [B5_disc_gpm_integralAll _ _ (pairsOf_ne_nil h2)]
  have hc : ∀ p ∈ pairsOf (resolveIdx idx (prep kw L).length),
      orderValues kw (tr (prep kw L) p.1) (tr (prep kw L) p.2) =
        (orderProfileBi kw.noRecon (tr (prep kw L) p.1) (tr (prep kw L) p.2)).integralAll := by
    intro p hp
    have hm := mem_pairsOf hp
    exact F3_orderValues_fix kw _ _
      (F3_reconcileBi_fix kw L h p.1 p.2 (F3_idx_lt hv hm.1) (F3_idx_lt hv hm.2))
  have e1 : (pairsOf (resolveIdx idx (prep kw L).length)).map (fun p =>
        (orderValues kw (tr (prep kw L) p.1) (tr (prep kw L) p.2)).1) =
      (pairsOf (resolveIdx idx (prep kw L).length)).map (fun p =>
        (orderProfileBi kw.noRecon (tr (prep kw L) p.1) (tr (prep kw L) p.2)).integralAll.1) :=
    List.map_congr_left (fun p hp => by rw [hc p hp])
  have e2 : (pairsOf (resolveIdx idx (prep kw L).length)).map (fun p =>
        (orderValues kw (tr (prep kw L) p.1) (tr (prep kw L) p.2)).2) =
      (pairsOf (resolveIdx idx (prep kw L).length)).map (fun p =>
        (orderProfileBi kw.noRecon (tr (prep kw L) p.1) (tr (prep kw L) p.2)).integralAll.2) :=
    List.map_congr_left (fun p hp => by rw [hc p hp])
  rw [e1, e2]
  rfl

/-- **C05, any number of valid trains, any `kw.recon`, any `indices`**: multivariate spike-train
    order = summed values / summed multiplicities of the multivariate order profile -/
theorem F3_order_multi_is_profile_ratio (kw : Kw) (idx : Option (List Nat)) (L : List Train)
    (ts te : Q) (hv : B5_ValidList ts te L)
    (hl : idxValid (resolveIdx idx L.length) L.length = true)
    (h2 : 2 ≤ (resolveIdx idx L.length).length) :
    spikeTrainOrderMulti kw idx L = syncRatio ((orderProfileMulti kw idx L).integralAll) := by
  have hp := F3_prep_valid kw (F3_valid_of_B5 hv)
  exact F3_order_multi_ratio_prep kw idx L (F3_Ok_of_B5 kw hv) (by rw [hp]; exact hl)
    (by rw [hp]; exact h2)

/-- all trains -/
theorem F3_order_multi_is_profile_ratio_all (kw : Kw) (L : List Train) (ts te : Q)
    (hv : B5_ValidList ts te L) (h2 : 2 ≤ L.length) :
    spikeTrainOrderMulti kw none L = syncRatio ((orderProfileMulti kw none L).integralAll) :=
  F3_order_multi_is_profile_ratio kw none L ts te hv (B2_idxValid_range _)
    (by simpa [resolveIdx] using h2)

/-- `indices = idx` -/
theorem F3_order_multi_is_profile_ratio_indices (kw : Kw) (idx : List Nat) (L : List Train)
    (ts te : Q) (hv : B5_ValidList ts te L) (hl : idxValid idx L.length = true)
    (h2 : 2 ≤ idx.length) :
    spikeTrainOrderMulti kw (some idx) L
      = syncRatio ((orderProfileMulti kw (some idx) L).integralAll) :=
  F3_order_multi_is_profile_ratio kw (some idx) L ts te hv hl h2

/-- default call (`Reconcile=True`), arbitrary trains, `indices = idx` -/
theorem F3_order_multi_is_profile_ratio_recon (kw : Kw) (idx : List Nat) (L : List Train)
    (hr : kw.recon = true) (hl : idxValid idx L.length = true) (h2 : 2 ≤ idx.length) :
    spikeTrainOrderMulti kw (some idx) L
      = syncRatio ((orderProfileMulti kw (some idx) L).integralAll) := by
  have hp : (prep kw L).length = L.length := B5_prep_length kw L
  exact F3_order_multi_ratio_prep kw (some idx) L (Or.inl hr) (by rw [hp]; exact hl) h2

example : B5_ValidList 0 10 F3_exL ∧ idxValid [2, 0] F3_exL.length = true ∧ 2 ≤ [2, 0].length :=
  ⟨F3_exL_valid, by decide, by decide⟩


/-! ## 2. entries of the directionality matrix -/

/-- for a pair that the pair reconciliation leaves alone the `Reconcile` switch of the bivariate
    call is irrelevant (also for the normalised value) -/
theorem F3_spikeDirectionality_noRecon_fix (kw : Kw) (normalize : Bool) (a b : Train)
    (h : reconcileBi a b = (a, b)) :
    spikeDirectionality kw.noRecon normalize a b = spikeDirectionality kw normalize a b := by
  have hp : prepBi kw a b = (a, b) := by
    unfold prepBi
    split
    · exact h
    · rfl
  rw [F3_spikeDirectionality_eq_spec, F3_spikeDirectionality_eq_spec, prepBi_noRecon, hp]
  rfl

theorem F3_edges_of_fix {a b : Train} (h : reconcileBi a b = (a, b)) : a.ts = b.ts ∧ a.te = b.te := by
  have he := C2_reconcileBi_edges a b
  rw [h] at he
  exact ⟨he.1.symm, he.2.symm⟩

/-- **entry above the diagonal** (`i < j`), every `kw`, every valid `indices`, normalised or not:
    the bivariate `spikeDirectionality` (same `kw`) of the selected pair of prepared trains -/
theorem F3_matrix_entry_upper (kw : Kw) (normalize : Bool) (idx : Option (List Nat))
    (L : List Train) (h : F3_Ok kw L)
    (hv : idxValid (resolveIdx idx (prep kw L).length) (prep kw L).length = true)
    (i j : Nat) (hij : i < j) (hj : j < (resolveIdx idx (prep kw L).length).length) :
    ((spikeDirectionalityMatrix kw normalize idx L).getD i []).getD j 0 =
      spikeDirectionality kw normalize
        (tr (prep kw L) ((resolveIdx idx (prep kw L).length).getD i 0))
        (tr (prep kw L) ((resolveIdx idx (prep kw L).length).getD j 0)) := by
  have hi : i < (resolveIdx idx (prep kw L).length).length := lt_trans hij hj
  rw [B2_spikeDirectionalityMatrix_upper kw normalize idx L i j hij hj]
  exact F3_spikeDirectionality_noRecon_fix kw normalize _ _
    (F3_reconcileBi_fix kw L h _ _ (F3_idx_lt hv (F3_getD_mem _ i hi))
      (F3_idx_lt hv (F3_getD_mem _ j hj)))

/-- **entry below the diagonal** (`j < i`): minus the bivariate value of the exchanged pair (for
    `normalize = true` this is `-D(j,i)`, divided by the spike count of train `j`, as in the code) -/
theorem F3_matrix_entry_lower (kw : Kw) (normalize : Bool) (idx : Option (List Nat))
    (L : List Train) (h : F3_Ok kw L)
    (hv : idxValid (resolveIdx idx (prep kw L).length) (prep kw L).length = true)
    (i j : Nat) (hji : j < i) (hi : i < (resolveIdx idx (prep kw L).length).length) :
    ((spikeDirectionalityMatrix kw normalize idx L).getD i []).getD j 0 =
      - spikeDirectionality kw normalize
        (tr (prep kw L) ((resolveIdx idx (prep kw L).length).getD j 0))
        (tr (prep kw L) ((resolveIdx idx (prep kw L).length).getD i 0)) := by
  have hj : j < (resolveIdx idx (prep kw L).length).length := lt_trans hji hi
  rw [spikeDirectionalityMatrix_antisymm kw normalize idx L i j hi hj,
    F3_matrix_entry_upper kw normalize idx L h hv j i hji hi]

/-- **every off-diagonal entry of the un-normalised matrix** (`i ≠ j`) is the bivariate
    un-normalised `spikeDirectionality` of the pair `(i, j)` in that order -/
theorem F3_matrix_entry_unnormalized (kw : Kw) (idx : Option (List Nat))
    (L : List Train) (h : F3_Ok kw L)
    (hv : idxValid (resolveIdx idx (prep kw L).length) (prep kw L).length = true)
    (i j : Nat) (hne : i ≠ j) (hi : i < (resolveIdx idx (prep kw L).length).length)
    (hj : j < (resolveIdx idx (prep kw L).length).length) :
    ((spikeDirectionalityMatrix kw false idx L).getD i []).getD j 0 =
      spikeDirectionality kw false
        (tr (prep kw L) ((resolveIdx idx (prep kw L).length).getD i 0))
        (tr (prep kw L) ((resolveIdx idx (prep kw L).length).getD j 0)) := by
  rcases Nat.lt_or_gt_of_ne hne with hij | hji
  · exact F3_matrix_entry_upper kw false idx L h hv i j hij hj
  · rw [F3_matrix_entry_lower kw false idx L h hv i j hji hi]
    have hfix := F3_reconcileBi_fix kw L h _ _ (F3_idx_lt hv (F3_getD_mem _ j hj))
      (F3_idx_lt hv (F3_getD_mem _ i hi))
    have he := F3_edges_of_fix hfix
    rw [B2_spikeDirectionality_swap kw _ _ he.1 he.2]

/-- the work-package form: valid list, `indices = idx`, entries in terms of `L` itself -/
theorem F3_matrix_entry_indices (kw : Kw) (normalize : Bool) (idx : List Nat) (L : List Train)
    (ts te : Q) (hv : B5_ValidList ts te L) (hl : idxValid idx L.length = true)
    (i j : Nat) (hi : i < idx.length) (hj : j < idx.length) :
    (i < j → ((spikeDirectionalityMatrix kw normalize (some idx) L).getD i []).getD j 0 =
        spikeDirectionality kw normalize (tr L (idx.getD i 0)) (tr L (idx.getD j 0))) ∧
    (j < i → ((spikeDirectionalityMatrix kw normalize (some idx) L).getD i []).getD j 0 =
        - spikeDirectionality kw normalize (tr L (idx.getD j 0)) (tr L (idx.getD i 0))) ∧
    (i ≠ j → ((spikeDirectionalityMatrix kw false (some idx) L).getD i []).getD j 0 =
        spikeDirectionality kw false (tr L (idx.getD i 0)) (tr L (idx.getD j 0))) := by
  have hp := F3_prep_valid kw (F3_valid_of_B5 hv)
  have hok := F3_Ok_of_B5 kw hv
  have hv' : idxValid (resolveIdx (some idx) (prep kw L).length) (prep kw L).length = true := by
    rw [hp]; exact hl
  refine ⟨fun hij => ?_, fun hji => ?_, fun hne => ?_⟩
  · have e := F3_matrix_entry_upper kw normalize (some idx) L hok hv' i j hij hj
    rw [hp] at e; exact e
  · have e := F3_matrix_entry_lower kw normalize (some idx) L hok hv' i j hji hi
    rw [hp] at e; exact e
  · have e := F3_matrix_entry_unnormalized kw (some idx) L hok hv' i j hne hi hj
    rw [hp] at e; exact e

/-- all trains (`indices=None`) of a valid list: entry `(i, j)` is the value of `(L[i], L[j])` -/
theorem F3_matrix_entry_all (kw : Kw) (normalize : Bool) (L : List Train)
    (ts te : Q) (hv : B5_ValidList ts te L) (i j : Nat) (hi : i < L.length) (hj : j < L.length) :
    (i < j → ((spikeDirectionalityMatrix kw normalize none L).getD i []).getD j 0 =
        spikeDirectionality kw normalize (tr L i) (tr L j)) ∧
    (j < i → ((spikeDirectionalityMatrix kw normalize none L).getD i []).getD j 0 =
        - spikeDirectionality kw normalize (tr L j) (tr L i)) ∧
    (i ≠ j → ((spikeDirectionalityMatrix kw false none L).getD i []).getD j 0 =
        spikeDirectionality kw false (tr L i) (tr L j)) := by
  have hp := F3_prep_valid kw (F3_valid_of_B5 hv)
  have hok := F3_Ok_of_B5 kw hv
  have hv' : idxValid (resolveIdx none (prep kw L).length) (prep kw L).length = true :=
    B2_idxValid_range _
  have hi' : i < (resolveIdx none (prep kw L).length).length := by
    rw [hp]; simpa [resolveIdx] using hi
  have hj' : j < (resolveIdx none (prep kw L).length).length := by
    rw [hp]; simpa [resolveIdx] using hj
  refine ⟨fun hij => ?_, fun hji => ?_, fun hne => ?_⟩
  · have e := F3_matrix_entry_upper kw normalize none L hok hv' i j hij hj'
    rw [hp] at e
    simpa only [resolveIdx, getD_range _ _ hi, getD_range _ _ hj] using e
  · have e := F3_matrix_entry_lower kw normalize none L hok hv' i j hji hi'
    rw [hp] at e
    simpa only [resolveIdx, getD_range _ _ hi, getD_range _ _ hj] using e
  · have e := F3_matrix_entry_unnormalized kw none L hok hv' i j hne hi' hj'
    rw [hp] at e
    simpa only [resolveIdx, getD_range _ _ hi, getD_range _ _ hj] using e

example : B5_ValidList 0 10 F3_exL ∧ idxValid [2, 0] F3_exL.length = true ∧ (0 : Nat) < [2, 0].length ∧
    (1 : Nat) < [2, 0].length := ⟨F3_exL_valid, by decide, by decide, by decide⟩


end PySpike
