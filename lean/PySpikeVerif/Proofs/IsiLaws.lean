/-
  Proofs/IsiLaws.lean — range, symmetry, identity and MRTS-monotonicity of the ISI ratio and of
  the ISI scan; positivity of the interval lengths (no emitted value has a zero denominator).
-/
import PySpikeVerif.Proofs.Isi

namespace PySpike

theorem isiVal_nonneg (nu1 nu2 m : Q) (h1 : 0 < nu1) : 0 ≤ isiVal nu1 nu2 m := by
  unfold isiVal
  apply div_nonneg (qabs_nonneg _)
  exact le_trans (le_of_lt h1) (le_trans (le_max_left _ _) (le_max_left _ _))

theorem isiVal_le_one (nu1 nu2 m : Q) (h1 : 0 < nu1) (h2 : 0 < nu2) : isiVal nu1 nu2 m ≤ 1 := by
  unfold isiVal
  have hden : 0 < max (max nu1 nu2) m := lt_of_lt_of_le h1 (le_trans (le_max_left _ _) (le_max_left _ _))
  rw [div_le_one hden, qabs_eq_abs]
  apply le_trans _ (le_max_left _ _)
  rw [abs_le]
  constructor
  · have := le_max_right nu1 nu2; linarith
  · have := le_max_left nu1 nu2; linarith

theorem isiVal_symm (nu1 nu2 m : Q) : isiVal nu1 nu2 m = isiVal nu2 nu1 m := by
  unfold isiVal; rw [qabs_sub_comm, max_comm nu1 nu2]

theorem isiVal_self (nu m : Q) : isiVal nu nu m = 0 := by
  unfold isiVal qabs; simp

/-- the emitted ratio has a positive denominator whenever one interval length is positive -/
theorem isiVal_den_pos (nu1 nu2 m : Q) (h1 : 0 < nu1) : 0 < max (max nu1 nu2) m :=
  lt_of_lt_of_le h1 (le_trans (le_max_left _ _) (le_max_left _ _))

/-- raising MRTS never increases the ISI ratio -/
theorem isiVal_antitone_m (nu1 nu2 m1 m2 : Q) (h1 : 0 < nu1) (hm : m1 ≤ m2) :
    isiVal nu1 nu2 m2 ≤ isiVal nu1 nu2 m1 := by
  unfold isiVal
  apply div_le_div_of_nonneg_left (qabs_nonneg _) (isiVal_den_pos nu1 nu2 m1 h1)
  exact max_le_max (le_refl _) hm

/-- an MRTS not larger than both interval lengths changes nothing -/
theorem isiVal_small_m (nu1 nu2 m : Q) (hm : m ≤ max nu1 nu2) :
    isiVal nu1 nu2 m = isiVal nu1 nu2 0 ∨ max nu1 nu2 < 0 := by
  by_cases h : 0 ≤ max nu1 nu2
  · left; unfold isiVal; rw [max_eq_left hm, max_eq_left h]
  · right; exact not_le.mp h

theorem isiVal_zero_m (nu1 nu2 : Q) (h : 0 ≤ max nu1 nu2) :
    isiVal nu1 nu2 0 = qabs (nu1 - nu2) / max nu1 nu2 := by
  unfold isiVal; rw [max_eq_left h]

/-- interval lengths are positive at every time of the recording: no emitted value divides by 0 -/
theorem nuAt_pos (s : List Q) (ts te t : Q) (hlt : ts < te)
    (hb : ∀ x ∈ s, ts ≤ x ∧ x ≤ te) (h1 : ts ≤ t) (h2 : t < te) : 0 < nuAt s ts te t := by
  unfold nuAt
  have hbef : ∀ p, (s.filter (· ≤ t)).getLast? = some p → p ≤ t := by
    intro p hp
    have := List.mem_of_getLast? hp
    simpa using (List.mem_filter.mp this).2
  have haft : ∀ f, (s.filter (t < ·)).head? = some f → t < f := by
    intro f hf
    have := List.mem_of_head? hf
    simpa using (List.mem_filter.mp this).2
  simp only
  split
  · rename_i p f hp hf
    have := hbef p hp; have := haft f hf; linarith
  · rename_i f hp hf
    have hf' := haft f hf
    split
    · exact lt_of_lt_of_le (by linarith) (le_max_left _ _)
    · linarith
  · rename_i p hp hf
    have hp' := hbef p hp
    split
    · exact lt_of_lt_of_le (by linarith) (le_max_left _ _)
    · linarith
  · linarith

/-- swapping the two trains does not change the scan -/
theorem isiLoop_symm (te m : Q) :
    ∀ (p1 : Option Q) (r1 : List Q) (nu1 : Q) (p2 : Option Q) (r2 : List Q) (nu2 : Q),
      isiLoop te m p1 r1 nu1 p2 r2 nu2 = isiLoop te m p2 r2 nu2 p1 r1 nu1 := by
  intro p1 r1 nu1 p2 r2 nu2
  induction p1, r1, nu1, p2, r2, nu2 using isiLoop.induct te with
  | case1 p1 nu1 p2 nu2 => rw [isiLoop, isiLoop]
  | case2 p1 nu1 p2 nu2 a r1' nu1' ih =>
    rw [isiLoop, isiLoop.eq_3]; rw [ih, isiVal_symm]
  | case3 p1 nu1 p2 nu2 b r2' nu2' ih =>
    rw [isiLoop.eq_3, isiLoop]; rw [ih, isiVal_symm]
  | case4 p1 nu1 p2 nu2 a r1' b r2' hab nu1' ih =>
    rw [isiLoop, if_pos hab]
    conv_rhs => rw [isiLoop, if_neg (not_lt.mpr (le_of_lt hab)), if_pos hab]
    dsimp only; rw [ih, isiVal_symm]
  | case5 p1 nu1 p2 nu2 a r1' b r2' hab hba nu2' ih =>
    rw [isiLoop, if_neg hab, if_pos hba]
    conv_rhs => rw [isiLoop, if_pos hba]
    dsimp only; rw [ih, isiVal_symm]
  | case6 p1 nu1 p2 nu2 a r1' b r2' hab hba nu1' nu2' ih =>
    have hEq : a = b := le_antisymm (not_lt.mp hba) (not_lt.mp hab)
    subst hEq
    rw [isiLoop, if_neg hab, if_neg hba]
    conv_rhs => rw [isiLoop, if_neg hba, if_neg hab]
    dsimp only; rw [ih, isiVal_symm]

theorem isiProfile_symm (s1 s2 : List Q) (ts te m : Q) :
    isiProfile s1 s2 ts te m = isiProfile s2 s1 ts te m := by
  unfold isiProfile isiEvents
  dsimp only
  rw [isiLoop_symm, isiVal_symm]

end PySpike
