/-
  Proofs/Integral.lean — property C10: `integral`, `avrg`, `__call__` and `get_plottable_data` of the
  piecewise constant / piecewise linear function classes are exact with respect to the cursor-free
  specification of Spec/Funcs.lean (Riemann sum by clipping every piece, one-sided limits).
-/
import PySpikeVerif.Spec.Funcs
import PySpikeVerif.Proofs.Basic
import PySpikeVerif.Proofs.FuncLaws
import Mathlib.Data.List.Basic

namespace PySpike

/-! ## searchsorted / nth / lastD helpers -/

theorem ssRight_cons (x : Q) (xs : List Q) (t : Q) :
    ssRight (x :: xs) t = if x ≤ t then ssRight xs t + 1 else ssRight xs t := by
  unfold ssRight; rw [List.filter_cons]; split <;> simp_all

theorem ssLeft_cons (x : Q) (xs : List Q) (t : Q) :
    ssLeft (x :: xs) t = if x < t then ssLeft xs t + 1 else ssLeft xs t := by
  unfold ssLeft; rw [List.filter_cons]; split <;> simp_all

@[simp] theorem ssRight_nil (t : Q) : ssRight [] t = 0 := rfl
@[simp] theorem ssLeft_nil (t : Q) : ssLeft [] t = 0 := rfl

theorem ssRight_eq_zero {xs : List Q} {t : Q} (h : ∀ x ∈ xs, t < x) : ssRight xs t = 0 := by
  unfold ssRight
  rw [List.length_eq_zero_iff, List.filter_eq_nil_iff]
  intro x hx; simpa using h x hx

theorem ssLeft_eq_zero {xs : List Q} {t : Q} (h : ∀ x ∈ xs, t ≤ x) : ssLeft xs t = 0 := by
  unfold ssLeft
  rw [List.length_eq_zero_iff, List.filter_eq_nil_iff]
  intro x hx; simpa using h x hx

theorem ssRight_eq_length {xs : List Q} {t : Q} (h : ∀ x ∈ xs, x ≤ t) : ssRight xs t = xs.length := by
  unfold ssRight
  rw [List.filter_eq_self.mpr]; intro x hx; simpa using h x hx

theorem ssLeft_eq_length {xs : List Q} {t : Q} (h : ∀ x ∈ xs, x < t) : ssLeft xs t = xs.length := by
  unfold ssLeft
  rw [List.filter_eq_self.mpr]; intro x hx; simpa using h x hx

@[simp] theorem nth_cons_succ (x : Q) (xs : List Q) (k : Nat) : nth (x :: xs) (k + 1) = nth xs k := by
  simp [nth]
@[simp] theorem nth_cons_zero (x : Q) (xs : List Q) : nth (x :: xs) 0 = x := by simp [nth]

@[simp] theorem lastD_cons_cons {α} (a b : α) (r : List α) (d : α) :
    lastD (a :: b :: r) d = lastD (b :: r) d := rfl
@[simp] theorem lastD_singleton {α} (a d : α) : lastD [a] d = a := rfl

private theorem lastD_mem {α} (a : α) (r : List α) (d : α) : lastD (a :: r) d ∈ a :: r := by
  induction r generalizing a with
  | nil => simp
  | cons b r ih => rw [lastD_cons_cons]; exact List.mem_cons_of_mem _ (ih b)

/-- in a strictly increasing list the head is below everything else, everything is ≤ the last -/
theorem sorted_head_lt {a : Q} {r : List Q} (h : (a :: r).Pairwise (· < ·)) : ∀ x ∈ r, a < x :=
  (List.pairwise_cons.mp h).1

theorem sorted_le_last : ∀ {xs : List Q}, xs.Pairwise (· < ·) → ∀ x ∈ xs, x ≤ lastD xs 0
  | [], _, x, hx => by simp at hx
  | [a], _, x, hx => by simp at hx; simp [hx]
  | a :: b :: r, h, x, hx => by
    rw [lastD_cons_cons]
    have h' := List.pairwise_cons.mp h
    rcases List.mem_cons.mp hx with rfl | hx
    · exact le_of_lt (h'.1 _ (lastD_mem b r 0))
    · exact sorted_le_last h'.2 x hx

theorem sorted_head_le_last {a : Q} {r : List Q} (h : (a :: r).Pairwise (· < ·)) :
    a ≤ lastD (a :: r) 0 := sorted_le_last h a (by simp)

theorem sorted_head_lt_last {a b : Q} {r : List Q} (h : (a :: b :: r).Pairwise (· < ·)) :
    a < lastD (a :: b :: r) 0 := sorted_head_lt h _ (by rw [lastD_cons_cons]; exact lastD_mem b r 0)

/-! ## induction principle for well-formed (x, y) list pairs -/

theorem wf2_induction {P : List Q → List Q → Prop}
    (base : ∀ x0 x1 y0 : Q, x0 < x1 → P [x0, x1] [y0])
    (step : ∀ (x0 x1 x2 : Q) (r : List Q) (y0 : Q) (ys : List Q), x0 < x1 →
      (x0 :: x1 :: x2 :: r).Pairwise (· < ·) → (x1 :: x2 :: r).Pairwise (· < ·) →
      ys.length + 1 = (x1 :: x2 :: r).length →
      P (x1 :: x2 :: r) ys → P (x0 :: x1 :: x2 :: r) (y0 :: ys)) :
    ∀ xs ys : List Q, xs.Pairwise (· < ·) → ys.length + 1 = xs.length → 2 ≤ xs.length → P xs ys := by
  intro xs
  induction xs with
  | nil => intro ys _ _ h; simp at h
  | cons x0 r ih =>
    intro ys hs hl h2
    match r, ys, hs, hl, h2, ih with
    | [], _, _, _, h2, _ => simp at h2
    | [x1], [], _, hl, _, _ => simp at hl
    | [x1], [y0], hs, _, _, _ => exact base x0 x1 y0 (sorted_head_lt hs x1 (by simp))
    | [x1], _ :: _ :: _, _, hl, _, _ => simp at hl
    | x1 :: x2 :: r', [], _, hl, _, _ => simp at hl
    | x1 :: x2 :: r', y0 :: ys', hs, hl, _, ih =>
      have hs' := (List.pairwise_cons.mp hs).2
      have hl' : ys'.length + 1 = (x1 :: x2 :: r').length := by simp at hl ⊢; omega
      exact step x0 x1 x2 r' y0 ys' (sorted_head_lt hs x1 (by simp)) hs hs' hl'
        (ih ys' hs' hl' (by simp))

/-! ## piecewise constant: Riemann sum on raw lists -/

/-- `Pwc.riemann` on raw lists -/
def pwcR (a b : Q) (xs ys : List Q) : Q :=
  qsum ((xs.zip (xs.tail.zip ys)).map fun p => clipLen a b p.1 p.2.1 * p.2.2)

theorem Pwc.riemann_eq (f : Pwc) (a b : Q) : f.riemann a b = pwcR a b f.x f.y := rfl

theorem pwcR_cons (a b x0 x1 : Q) (r : List Q) (y0 : Q) (ys : List Q) :
    pwcR a b (x0 :: x1 :: r) (y0 :: ys) = clipLen a b x0 x1 * y0 + pwcR a b (x1 :: r) ys := by
  simp [pwcR, qsum]

theorem clipLen_right_zero {a b l r : Q} (h : b ≤ l) : clipLen a b l r = 0 := by
  unfold clipLen
  apply max_eq_left
  have := min_le_left b r
  have := le_max_right a l
  linarith

theorem clipLen_left_zero {a b l r : Q} (h : r ≤ a) : clipLen a b l r = 0 := by
  unfold clipLen
  apply max_eq_left
  have := min_le_right b r
  have := le_max_left a l
  linarith

theorem clipLen_inside {a b l r : Q} (h1 : a ≤ l) (h2 : l ≤ r) (h3 : r ≤ b) : clipLen a b l r = r - l := by
  unfold clipLen
  rw [min_eq_right h3, max_eq_right h1, max_eq_right]; linarith

theorem clipLen_both {a b l r : Q} (h1 : l ≤ a) (h2 : a ≤ b) (h3 : b ≤ r) : clipLen a b l r = b - a := by
  unfold clipLen
  rw [min_eq_left h3, max_eq_left h1, max_eq_right]; linarith

theorem clipLen_left {a b l r : Q} (h1 : l ≤ a) (h2 : a ≤ r) (h3 : r ≤ b) : clipLen a b l r = r - a := by
  unfold clipLen
  rw [min_eq_right h3, max_eq_left h1, max_eq_right]; linarith

theorem clipLen_right {a b l r : Q} (h1 : a ≤ l) (h2 : l ≤ b) (h3 : b ≤ r) : clipLen a b l r = b - l := by
  unfold clipLen
  rw [min_eq_left h3, max_eq_right h1, max_eq_right]; linarith

/-- all pieces to the right of `b` contribute nothing -/
theorem pwcR_right_zero (a b : Q) : ∀ (xs ys : List Q), (∀ x ∈ xs, b ≤ x) → pwcR a b xs ys = 0
  | [], _, _ => by simp [pwcR, qsum]
  | [_], _, _ => by simp [pwcR, qsum]
  | _ :: _ :: _, [], _ => by simp [pwcR, qsum]
  | x0 :: x1 :: r, y0 :: ys, h => by
    rw [pwcR_cons, clipLen_right_zero (h x0 (by simp)),
      pwcR_right_zero a b (x1 :: r) ys (fun x hx => h x (List.mem_cons_of_mem _ hx))]
    ring

/-! ## piecewise constant: the index arithmetic of `integral` -/

/-- the part of the general code path to the right of the first breakpoint after `a`:
    whole pieces up to the piece containing `b`, plus the partial last piece -/
def pwcTail (xs ys : List Q) (b : Q) : Q :=
  let m := ssLeft xs b - 1
  qsum (((xs.tail.take m).zip ((xs.take m).zip (ys.take m))).map fun p => (p.1 - p.2.1) * p.2.2)
    + (b - nth xs m) * nth ys m

theorem pwcTail_eq (a b : Q) : ∀ xs ys : List Q, xs.Pairwise (· < ·) → ys.length + 1 = xs.length →
    2 ≤ xs.length → a ≤ xs.headD 0 → xs.headD 0 < b → b ≤ lastD xs 0 →
    pwcTail xs ys b = pwcR a b xs ys := by
  apply wf2_induction
  · intro x0 x1 y0 h01 ha hb hbl
    simp only [List.headD_cons, lastD_cons_cons, lastD_singleton] at ha hb hbl
    have h1 : ssLeft [x0, x1] b = 1 := by
      simp [ssLeft_cons, hb, not_lt.mpr hbl]
    simp [pwcTail, h1, pwcR, qsum, clipLen_right ha hb.le hbl]
  · intro x0 x1 x2 r y0 ys h01 hs hs' hl ih ha hb hbl
    simp only [List.headD_cons, lastD_cons_cons] at ha hb hbl ih
    rw [pwcR_cons]
    by_cases hb1 : b ≤ x1
    · have h1 : ssLeft (x0 :: x1 :: x2 :: r) b = 1 := by
        rw [ssLeft_cons, if_pos hb, ssLeft_eq_zero]
        intro x hx
        rcases List.mem_cons.mp hx with rfl | hx
        · exact hb1
        · exact le_trans hb1 (le_of_lt (sorted_head_lt hs' x hx))
      rw [pwcR_right_zero a b _ _ (by
        intro x hx
        rcases List.mem_cons.mp hx with rfl | hx
        · exact hb1
        · exact le_trans hb1 (le_of_lt (sorted_head_lt hs' x hx)))]
      simp [pwcTail, h1, qsum, clipLen_right ha hb.le hb1]
    · have hb1 : x1 < b := not_le.mp hb1
      have ih := ih (le_trans ha h01.le) hb1 hbl
      obtain ⟨m, hm⟩ : ∃ m, ssLeft (x1 :: x2 :: r) b = m + 1 := by
        rw [ssLeft_cons, if_pos hb1]; exact ⟨_, rfl⟩
      have h1 : ssLeft (x0 :: x1 :: x2 :: r) b = m + 2 := by
        rw [ssLeft_cons, if_pos hb, hm]
      rw [← ih, clipLen_inside ha h01.le hb1.le]
      simp only [pwcTail, h1, hm]
      simp [qsum]
      ring

/-- the `else` block of `Pwc.integral` after the three guards -/
def pwcBody (xs ys : List Q) (a b : Q) : Q :=
  let si := ssRight xs a
  let ei1 := ssLeft xs b
  if si > ei1 - 1 ∨ ei1 = 0 then
    let ei := ei1 - 1
    (nth xs si - nth xs ei) * nth ys ei - ((a - nth xs ei) + (nth xs si - b)) * nth ys ei
  else
    let ei := ei1 - 1
    let mid := qsum (((xs.drop (si+1)).take (ei - si)).zip
                (((xs.drop si).take (ei - si)).zip ((ys.drop si).take (ei - si)))
                |>.map fun p => (p.1 - p.2.1) * p.2.2)
    mid + (nth xs si - a) * nth ys (si - 1) + (b - nth xs ei) * nth ys ei

theorem Pwc.integral_eq_body (f : Pwc) (a b : Q) (h1 : a ≤ b) (h2 : f.first ≤ a) (h3 : b ≤ f.last) :
    f.integral a b = some (pwcBody f.x f.y a b) := by
  unfold Pwc.first at h2; unfold Pwc.last at h3
  unfold Pwc.integral pwcBody
  rw [if_neg (not_lt.mpr h1), if_neg (not_lt.mpr h2), if_neg (not_lt.mpr h3)]
  dsimp only
  split <;> rfl

theorem pwcBody_shift (x0 x1 : Q) (r : List Q) (y0 : Q) (ys : List Q) (a b : Q)
    (h0 : x0 ≤ a) (h1 : x1 ≤ a) (hab : a < b) :
    pwcBody (x0 :: x1 :: r) (y0 :: ys) a b = pwcBody (x1 :: r) ys a b := by
  obtain ⟨k, hk⟩ : ∃ k, ssRight (x1 :: r) a = k + 1 := by
    rw [ssRight_cons, if_pos h1]; exact ⟨_, rfl⟩
  obtain ⟨m, hm⟩ : ∃ m, ssLeft (x1 :: r) b = m + 1 := by
    rw [ssLeft_cons, if_pos (lt_of_le_of_lt h1 hab)]; exact ⟨_, rfl⟩
  have hk' : ssRight (x0 :: x1 :: r) a = k + 2 := by rw [ssRight_cons, if_pos h0, hk]
  have hm' : ssLeft (x0 :: x1 :: r) b = m + 2 := by
    rw [ssLeft_cons, if_pos (lt_of_le_of_lt h0 hab), hm]
  unfold pwcBody
  simp only [hk, hm, hk', hm']
  have e1 : (k + 2 > m + 2 - 1 ∨ m + 2 = 0) ↔ (k + 1 > m + 1 - 1 ∨ m + 1 = 0) := by omega
  simp only [e1]
  split
  · simp
  · simp

theorem pwcBody_eq (a b : Q) (hab : a < b) : ∀ xs ys : List Q, xs.Pairwise (· < ·) →
    ys.length + 1 = xs.length → 2 ≤ xs.length → xs.headD 0 ≤ a → b ≤ lastD xs 0 →
    pwcBody xs ys a b = pwcR a b xs ys := by
  apply wf2_induction
  · intro x0 x1 y0 h01 ha hbl
    simp only [List.headD_cons, lastD_cons_cons, lastD_singleton] at ha hbl
    have h1 : ssLeft [x0, x1] b = 1 := by
      simp [ssLeft_cons, lt_of_le_of_lt ha hab, not_lt.mpr hbl]
    have h2 : ssRight [x0, x1] a = 1 := by
      simp [ssRight_cons, ha, not_le.mpr (lt_of_lt_of_le hab hbl)]
    simp [pwcBody, h1, h2, pwcR, qsum, clipLen_both ha hab.le hbl]
    ring
  · intro x0 x1 x2 r y0 ys h01 hs hs' hl ih ha hbl
    simp only [List.headD_cons, lastD_cons_cons] at ha hbl ih
    have hx0b : x0 < b := lt_of_le_of_lt ha hab
    by_cases ha1 : x1 ≤ a
    · rw [pwcBody_shift x0 x1 _ y0 ys a b ha ha1 hab, ih ha1 hbl, pwcR_cons,
        clipLen_left_zero ha1]
      ring
    · have ha1 : a < x1 := not_le.mp ha1
      have hgt : ∀ x ∈ x1 :: x2 :: r, x1 ≤ x := by
        intro x hx
        rcases List.mem_cons.mp hx with rfl | hx
        · exact le_refl _
        · exact le_of_lt (sorted_head_lt hs' x hx)
      have hsi : ssRight (x0 :: x1 :: x2 :: r) a = 1 := by
        rw [ssRight_cons, if_pos ha, ssRight_eq_zero]
        exact fun x hx => lt_of_lt_of_le ha1 (hgt x hx)
      rw [pwcR_cons]
      by_cases hb1 : b ≤ x1
      · have hei : ssLeft (x0 :: x1 :: x2 :: r) b = 1 := by
          rw [ssLeft_cons, if_pos hx0b, ssLeft_eq_zero]
          exact fun x hx => le_trans hb1 (hgt x hx)
        rw [pwcR_right_zero a b _ _ (fun x hx => le_trans hb1 (hgt x hx)),
          clipLen_both ha hab.le hb1]
        simp [pwcBody, hsi, hei]
        ring
      · have hb1 : x1 < b := not_le.mp hb1
        obtain ⟨m, hm⟩ : ∃ m, ssLeft (x1 :: x2 :: r) b = m + 1 := by
          rw [ssLeft_cons, if_pos hb1]; exact ⟨_, rfl⟩
        have hei : ssLeft (x0 :: x1 :: x2 :: r) b = m + 2 := by
          rw [ssLeft_cons, if_pos hx0b, hm]
        have ht := pwcTail_eq a b (x1 :: x2 :: r) ys hs' hl (by simp) ha1.le hb1 hbl
        rw [← ht, clipLen_left ha ha1.le hb1.le]
        simp only [pwcBody, pwcTail, hsi, hei, hm]
        simp
        ring

/-! ## piecewise constant: main theorems (items 1–5) -/

/-- a concrete well-formed piecewise constant function used in the examples: breakpoints
    `0,1,3,4`, values `2,5,-1` -/
def exPwc : Pwc := ⟨[0, 1, 3, 4], [2, 5, -1]⟩

theorem exPwc_WF : exPwc.WF := by
  refine ⟨rfl, ?_, by decide⟩
  simp [exPwc]; norm_num

theorem Pwc.first_lt_last {f : Pwc} (hf : f.WF) : f.first < f.last := by
  obtain ⟨_, hs, h2⟩ := hf
  unfold Pwc.first Pwc.last
  match hx : f.x, hs, h2 with
  | [], _, h2 => simp at h2
  | [_], _, h2 => simp at h2
  | a :: b :: r, hs, _ => exact sorted_head_lt_last hs

/-- item 1: `integral((a,b))` is the exact Riemann integral, for all positions of `a < b` in the
    support (on / between breakpoints, same piece, end points) -/
theorem Pwc.integral_eq_riemann {f : Pwc} (hf : f.WF) {a b : Q}
    (ha : f.first ≤ a) (hab : a < b) (hb : b ≤ f.last) :
    f.integral a b = some (f.riemann a b) := by
  rw [Pwc.integral_eq_body f a b hab.le ha hb, Pwc.riemann_eq,
    pwcBody_eq a b hab f.x f.y hf.2.1 hf.1 hf.2.2 ha hb]

example : exPwc.integral (1/2) (7/2) = some (exPwc.riemann (1/2) (7/2)) :=
  Pwc.integral_eq_riemann exPwc_WF (by decide +kernel) (by decide +kernel) (by decide +kernel)

/-- item 2: `integral()` is the Riemann integral over the whole support -/
theorem pwcR_all : ∀ xs ys : List Q, xs.Pairwise (· < ·) → ys.length + 1 = xs.length →
    2 ≤ xs.length → ∀ a, a ≤ xs.headD 0 →
    pwcR a (lastD xs 0) xs ys
      = qsum ((xs.zip (xs.tail.zip ys)).map fun p => (p.2.1 - p.1) * p.2.2) := by
  apply wf2_induction
  · intro x0 x1 y0 h01 a ha
    simp only [List.headD_cons] at ha
    simp [pwcR, qsum, clipLen_inside ha h01.le (le_refl x1)]
  · intro x0 x1 x2 r y0 ys h01 hs hs' hl ih a ha
    simp only [List.headD_cons, lastD_cons_cons] at ha ih ⊢
    have hl1 : x1 ≤ lastD (x2 :: r) 0 := by
      have := sorted_le_last hs' x1 (by simp)
      simpa using this
    rw [pwcR_cons, ih a (le_trans ha h01.le), clipLen_inside ha h01.le hl1]
    simp [qsum]

theorem Pwc.integralAll_eq_riemann {f : Pwc} (hf : f.WF) :
    f.integralAll = f.riemann f.first f.last := by
  rw [Pwc.riemann_eq]
  exact (pwcR_all f.x f.y hf.2.1 hf.1 hf.2.2 _ (le_refl _)).symm

example : exPwc.integralAll = exPwc.riemann exPwc.first exPwc.last :=
  Pwc.integralAll_eq_riemann exPwc_WF

/-- item 3: the Riemann integral is additive over adjacent intervals -/
theorem clipLen_additive {a b c l r : Q} (hab : a ≤ b) (hbc : b ≤ c) (hlr : l ≤ r) :
    clipLen a c l r = clipLen a b l r + clipLen b c l r := by
  simp only [clipLen, max_def, min_def]
  split_ifs <;> linarith

theorem pwcR_additive {a b c : Q} (hab : a ≤ b) (hbc : b ≤ c) :
    ∀ xs ys : List Q, xs.Pairwise (· < ·) → pwcR a c xs ys = pwcR a b xs ys + pwcR b c xs ys
  | [], _, _ => by simp [pwcR, qsum]
  | [_], _, _ => by simp [pwcR, qsum]
  | _ :: _ :: _, [], _ => by simp [pwcR, qsum]
  | x0 :: x1 :: r, y0 :: ys, h => by
    rw [pwcR_cons, pwcR_cons, pwcR_cons,
      pwcR_additive hab hbc (x1 :: r) ys (List.pairwise_cons.mp h).2,
      clipLen_additive hab hbc (sorted_head_lt h x1 (by simp)).le]
    ring

/-- additivity needs only the order of the three bounds (they may lie outside the support) -/
theorem Pwc.riemann_additive' {f : Pwc} (hf : f.WF) {a b c : Q} (hab : a ≤ b) (hbc : b ≤ c) :
    f.riemann a c = f.riemann a b + f.riemann b c := by
  simp only [Pwc.riemann_eq]
  exact pwcR_additive hab hbc f.x f.y hf.2.1

theorem Pwc.riemann_additive {f : Pwc} (hf : f.WF) {a b c : Q}
    (_ha : f.first ≤ a) (hab : a ≤ b) (hbc : b ≤ c) (_hc : c ≤ f.last) :
    f.riemann a c = f.riemann a b + f.riemann b c :=
  Pwc.riemann_additive' hf hab hbc

example : exPwc.riemann (1/2) (7/2) = exPwc.riemann (1/2) 3 + exPwc.riemann 3 (7/2) :=
  Pwc.riemann_additive exPwc_WF (by decide +kernel) (by decide +kernel) (by decide +kernel)
    (by decide +kernel)

/-- integrals over adjacent intervals add up -/
theorem Pwc.integral_additive {f : Pwc} (hf : f.WF) {a b c : Q}
    (ha : f.first ≤ a) (hab : a < b) (hbc : b < c) (hc : c ≤ f.last) :
    ∃ u v, f.integral a b = some u ∧ f.integral b c = some v ∧ f.integral a c = some (u + v) :=
  ⟨_, _, Pwc.integral_eq_riemann hf ha hab (le_trans hbc.le hc),
    Pwc.integral_eq_riemann hf (le_trans ha hab.le) hbc hc, by
    rw [Pwc.integral_eq_riemann hf ha (lt_trans hab hbc) hc,
      Pwc.riemann_additive hf ha hab.le hbc.le hc]⟩

/-- `integral((first,last)) = integral()` -/
theorem Pwc.integral_full {f : Pwc} (hf : f.WF) :
    f.integral f.first f.last = some f.integralAll := by
  rw [Pwc.integral_eq_riemann hf (le_refl _) (Pwc.first_lt_last hf) (le_refl _),
    Pwc.integralAll_eq_riemann hf]

/-- item 4: the `ValueError` paths -/
theorem Pwc.integral_reject (f : Pwc) {a b : Q} (h : a > b ∨ a < f.first ∨ b > f.last) :
    f.integral a b = none := by
  unfold Pwc.first Pwc.last at h
  unfold Pwc.integral
  rcases h with h | h | h
  · rw [if_pos h]
  · rw [if_pos h]; split <;> rfl
  · rw [if_pos h]; split <;> (try rfl); split <;> rfl

example : exPwc.integral 3 5 = none := Pwc.integral_reject _ (by decide +kernel)

/-- … and these are the only inputs for which the model returns `none` -/
theorem Pwc.integral_eq_none_iff (f : Pwc) (a b : Q) :
    f.integral a b = none ↔ (a > b ∨ a < f.first ∨ b > f.last) := by
  constructor
  · intro h
    by_contra hn
    simp only [not_or, not_lt] at hn
    rw [Pwc.integral_eq_body f a b hn.1 hn.2.1 hn.2.2] at h
    exact Option.some_ne_none _ h
  · exact Pwc.integral_reject f

/-- item 5: averages -/
theorem Pwc.avrg_eq {f : Pwc} (hf : f.WF) {a b : Q}
    (ha : f.first ≤ a) (hab : a < b) (hb : b ≤ f.last) :
    f.avrg a b = some (f.riemann a b / (b - a)) := by
  unfold Pwc.avrg; rw [Pwc.integral_eq_riemann hf ha hab hb]; rfl

example : exPwc.avrg 1 4 = some (exPwc.riemann 1 4 / (4 - 1)) :=
  Pwc.avrg_eq exPwc_WF (by decide +kernel) (by decide +kernel) (by decide +kernel)

theorem Pwc.avrgAll_eq {f : Pwc} (hf : f.WF) :
    f.avrgAll = f.riemann f.first f.last / (f.last - f.first) := by
  unfold Pwc.avrgAll; rw [Pwc.integralAll_eq_riemann hf]; rfl

example : exPwc.avrgAll = exPwc.riemann exPwc.first exPwc.last / (exPwc.last - exPwc.first) :=
  Pwc.avrgAll_eq exPwc_WF

theorem Pwc.avrgList_go_eq {f : Pwc} (hf : f.WF) : ∀ (ivs : List (Q × Q)) (acc len : Q),
    (∀ i ∈ ivs, f.first ≤ i.1 ∧ i.1 < i.2 ∧ i.2 ≤ f.last) →
    Pwc.avrgList.go f ivs acc len
      = some ((acc + qsum (ivs.map fun i => f.riemann i.1 i.2))
              / (len + qsum (ivs.map fun i => i.2 - i.1)))
  | [], acc, len, _ => by simp [Pwc.avrgList.go, qsum]
  | (a, b) :: r, acc, len, h => by
    have hi := h (a, b) (by simp)
    rw [Pwc.avrgList.go, Pwc.integral_eq_riemann hf hi.1 hi.2.1 hi.2.2]
    dsimp only
    rw [Pwc.avrgList_go_eq hf r _ _ (fun i hi => h i (List.mem_cons_of_mem _ hi))]
    simp only [List.map_cons, qsum]
    congr 2 <;> ring

theorem Pwc.avrgList_eq {f : Pwc} (hf : f.WF) (ivs : List (Q × Q))
    (h : ∀ i ∈ ivs, f.first ≤ i.1 ∧ i.1 < i.2 ∧ i.2 ≤ f.last) :
    f.avrgList ivs
      = some (qsum (ivs.map fun i => f.riemann i.1 i.2) / qsum (ivs.map fun i => i.2 - i.1)) := by
  unfold Pwc.avrgList
  rw [Pwc.avrgList_go_eq hf ivs 0 0 h]
  simp

example : exPwc.avrgList [(0, 1/2), (2, 4)]
    = some (qsum ([(0, 1/2), (2, 4)].map fun i => exPwc.riemann i.1 i.2)
            / qsum ([((0:Q), (1/2:Q)), (2, 4)].map fun i => i.2 - i.1)) :=
  Pwc.avrgList_eq exPwc_WF _ (by decide +kernel)

/-! ## piecewise constant: evaluation (items 6, 7) -/

theorem ssRight_eq_ssLeft_succ_of_mem : ∀ {xs : List Q} {t : Q}, xs.Pairwise (· < ·) → t ∈ xs →
    ssRight xs t = ssLeft xs t + 1
  | [], _, _, h => by simp at h
  | x :: r, t, hs, h => by
    have hs' := List.pairwise_cons.mp hs
    rcases List.mem_cons.mp h with rfl | h
    · rw [ssRight_cons, if_pos (le_refl _), ssLeft_cons, if_neg (lt_irrefl _),
        ssRight_eq_zero hs'.1, ssLeft_eq_zero (fun x hx => (hs'.1 x hx).le)]
    · have hlt : x < t := hs'.1 t h
      rw [ssRight_cons, if_pos hlt.le, ssLeft_cons, if_pos hlt,
        ssRight_eq_ssLeft_succ_of_mem hs'.2 h]

theorem ssRight_eq_ssLeft_of_not_mem : ∀ {xs : List Q} {t : Q}, t ∉ xs → ssRight xs t = ssLeft xs t
  | [], _, _ => rfl
  | x :: r, t, h => by
    have hne : x ≠ t := fun e => h (by simp [e])
    have hr : t ∉ r := fun e => h (List.mem_cons_of_mem _ e)
    rw [ssRight_cons, ssLeft_cons, ssRight_eq_ssLeft_of_not_mem hr]
    by_cases hlt : x < t
    · rw [if_pos hlt, if_pos hlt.le]
    · rw [if_neg hlt, if_neg (fun hle => hlt (lt_of_le_of_ne hle hne))]

theorem ssRight_lt_length {xs : List Q} {t : Q} (h : ∃ x ∈ xs, t < x) : ssRight xs t < xs.length := by
  unfold ssRight
  rw [List.length_filter_lt_length_iff_exists]
  obtain ⟨x, hx, hlt⟩ := h
  exact ⟨x, hx, by simpa using hlt⟩

theorem ssLeft_le_ssRight (xs : List Q) (t : Q) : ssLeft xs t ≤ ssRight xs t := by
  induction xs with
  | nil => simp
  | cons x r ih =>
    rw [ssRight_cons, ssLeft_cons]
    by_cases h : x < t
    · rw [if_pos h, if_pos h.le]; omega
    · rw [if_neg h]; split <;> omega

theorem nth_lastD : ∀ ys : List Q, ys ≠ [] → nth ys (ys.length - 1) = lastD ys 0
  | [], h => absurd rfl h
  | [y], _ => by simp
  | y :: z :: r, _ => by
    have := nth_lastD (z :: r) (by simp)
    simp only [List.length_cons, Nat.add_sub_cancel, lastD_cons_cons] at this ⊢
    rw [nth_cons_succ]; exact this

/-- the right limit is the value with index `searchsorted(x, t, 'right') - 1` -/
theorem evalR_idx (t : Q) : ∀ xs ys : List Q, xs.Pairwise (· < ·) → ys.length + 1 = xs.length →
    2 ≤ xs.length → xs.headD 0 ≤ t → t < lastD xs 0 →
    ((xs.zip (xs.tail.zip ys)).find? fun p => decide (p.1 ≤ t ∧ t < p.2.1)).map (·.2.2)
      = some (nth ys (ssRight xs t - 1)) := by
  apply wf2_induction
  · intro x0 x1 y0 h01 h0 h1
    simp only [List.headD_cons, lastD_cons_cons, lastD_singleton] at h0 h1
    simp [ssRight_cons, h0, h1, not_le.mpr h1]
  · intro x0 x1 x2 r y0 ys h01 hs hs' hl ih h0 h1
    simp only [List.headD_cons, lastD_cons_cons] at h0 h1 ih
    by_cases ht : t < x1
    · have : ssRight (x0 :: x1 :: x2 :: r) t = 1 := by
        rw [ssRight_cons, if_pos h0, ssRight_eq_zero]
        intro x hx
        rcases List.mem_cons.mp hx with rfl | hx
        · exact ht
        · exact lt_trans ht (sorted_head_lt hs' x hx)
      simp [this, h0, ht]
    · have ht : x1 ≤ t := not_lt.mp ht
      obtain ⟨k, hk⟩ : ∃ k, ssRight (x1 :: x2 :: r) t = k + 1 := by
        rw [ssRight_cons, if_pos ht]; exact ⟨_, rfl⟩
      have : ssRight (x0 :: x1 :: x2 :: r) t = k + 2 := by rw [ssRight_cons, if_pos h0, hk]
      have ih := ih ht h1
      rw [hk] at ih
      rw [this]
      simp only [List.tail_cons, List.zip_cons_cons] at ih ⊢
      rw [List.find?_cons_of_neg (by simp [not_lt.mpr ht])]
      simpa using ih

/-- the left limit is the value with index `searchsorted(x, t, 'left') - 1` -/
theorem evalL_idx (t : Q) : ∀ xs ys : List Q, xs.Pairwise (· < ·) → ys.length + 1 = xs.length →
    2 ≤ xs.length → xs.headD 0 < t → t ≤ lastD xs 0 →
    ((xs.zip (xs.tail.zip ys)).find? fun p => decide (p.1 < t ∧ t ≤ p.2.1)).map (·.2.2)
      = some (nth ys (ssLeft xs t - 1)) := by
  apply wf2_induction
  · intro x0 x1 y0 h01 h0 h1
    simp only [List.headD_cons, lastD_cons_cons, lastD_singleton] at h0 h1
    simp [ssLeft_cons, h0, h1, not_lt.mpr h1]
  · intro x0 x1 x2 r y0 ys h01 hs hs' hl ih h0 h1
    simp only [List.headD_cons, lastD_cons_cons] at h0 h1 ih
    by_cases ht : t ≤ x1
    · have : ssLeft (x0 :: x1 :: x2 :: r) t = 1 := by
        rw [ssLeft_cons, if_pos h0, ssLeft_eq_zero]
        intro x hx
        rcases List.mem_cons.mp hx with rfl | hx
        · exact ht
        · exact le_trans ht (sorted_head_lt hs' x hx).le
      simp [this, h0, ht]
    · have ht : x1 < t := not_le.mp ht
      obtain ⟨k, hk⟩ : ∃ k, ssLeft (x1 :: x2 :: r) t = k + 1 := by
        rw [ssLeft_cons, if_pos ht]; exact ⟨_, rfl⟩
      have : ssLeft (x0 :: x1 :: x2 :: r) t = k + 2 := by rw [ssLeft_cons, if_pos h0, hk]
      have ih := ih ht h1
      rw [hk] at ih
      rw [this]
      simp only [List.tail_cons, List.zip_cons_cons] at ih ⊢
      rw [List.find?_cons_of_neg (by simp [not_le.mpr ht])]
      simpa using ih

theorem Pwc.evalR_eq {f : Pwc} (hf : f.WF) {t : Q} (h0 : f.first ≤ t) (h1 : t < f.last) :
    f.evalR t = some (nth f.y (ssRight f.x t - 1)) :=
  evalR_idx t f.x f.y hf.2.1 hf.1 hf.2.2 h0 h1

theorem Pwc.evalL_eq {f : Pwc} (hf : f.WF) {t : Q} (h0 : f.first < t) (h1 : t ≤ f.last) :
    f.evalL t = some (nth f.y (ssLeft f.x t - 1)) :=
  evalL_idx t f.x f.y hf.2.1 hf.1 hf.2.2 h0 h1

theorem ssLeft_last : ∀ xs : List Q, xs.Pairwise (· < ·) → xs ≠ [] →
    ssLeft xs (lastD xs 0) + 1 = xs.length
  | [], _, h => absurd rfl h
  | [a], _, _ => by simp [ssLeft_cons]
  | a :: b :: r, hs, _ => by
    rw [ssLeft_cons, if_pos (sorted_head_lt_last hs), lastD_cons_cons,
      ssLeft_last (b :: r) (List.pairwise_cons.mp hs).2 (by simp)]
    simp

theorem ssRight_last {xs : List Q} (hs : xs.Pairwise (· < ·)) : ssRight xs (lastD xs 0) = xs.length :=
  ssRight_eq_length (sorted_le_last hs)

theorem ssRight_first {a : Q} {r : List Q} (hs : (a :: r).Pairwise (· < ·)) : ssRight (a :: r) a = 1 := by
  rw [ssRight_cons, if_pos (le_refl _), ssRight_eq_zero (sorted_head_lt hs)]

private theorem Pwc.WF.shape {f : Pwc} (hf : f.WF) :
    ∃ x0 x1 r y0 ys, f.x = x0 :: x1 :: r ∧ f.y = y0 :: ys := by
  obtain ⟨hl, _, h2⟩ := hf
  match hx : f.x, hy : f.y, hl, h2 with
  | [], _, _, h2 => simp at h2
  | [_], _, _, h2 => simp at h2
  | _ :: _ :: _, [], hl, _ => simp at hl
  | x0 :: x1 :: r, y0 :: ys, _, _ => exact ⟨x0, x1, r, y0, ys, rfl, rfl⟩

/-- item 6a: at the first breakpoint `__call__` returns the right limit -/
theorem Pwc.call_first {f : Pwc} (hf : f.WF) : f.evalR f.first = some (f.call f.first) := by
  rw [Pwc.evalR_eq hf (le_refl _) (Pwc.first_lt_last hf)]
  obtain ⟨x0, x1, r, y0, ys, hx, hy⟩ := hf.shape
  have hs := hf.2.1
  rw [hx] at hs
  simp [Pwc.first, Pwc.call, hx, hy, ssRight_first hs]

theorem Pwc.call_first_val (f : Pwc) : f.call f.first = f.y.headD 0 := by
  simp [Pwc.first, Pwc.call]

/-- item 6b: at the last breakpoint `__call__` returns the left limit -/
theorem Pwc.call_last_val {f : Pwc} (hf : f.WF) : f.call f.last = lastD f.y 0 := by
  have h := ne_of_gt (Pwc.first_lt_last hf)
  unfold Pwc.first Pwc.last at h
  unfold Pwc.call Pwc.last
  dsimp only
  rw [if_neg h, if_pos rfl]

theorem Pwc.call_last {f : Pwc} (hf : f.WF) : f.evalL f.last = some (f.call f.last) := by
  rw [Pwc.evalL_eq hf (Pwc.first_lt_last hf) (le_refl _), Pwc.call_last_val hf]
  obtain ⟨x0, x1, r, y0, ys, hx, hy⟩ := hf.shape
  have h1 := ssLeft_last f.x hf.2.1 (by simp [hx])
  have h2 := nth_lastD f.y (by simp [hy])
  have hl := hf.1
  unfold Pwc.last
  rw [← h2]
  congr 2
  omega

theorem Pwc.mem_first_le {f : Pwc} (hf : f.WF) {t : Q} (ht : t ∈ f.x) : f.first ≤ t := by
  obtain ⟨x0, x1, r, y0, ys, hx, hy⟩ := hf.shape
  have hs := hf.2.1
  unfold Pwc.first
  rw [hx] at hs ht ⊢
  rcases List.mem_cons.mp ht with rfl | h
  · simp
  · exact (sorted_head_lt hs t h).le

/-- index facts for a time strictly inside the support -/
theorem Pwc.idx_inside {f : Pwc} (hf : f.WF) {t : Q} (h0 : f.first < t) (h1 : t < f.last) :
    1 ≤ ssLeft f.x t ∧ ssRight f.x t < f.x.length := by
  obtain ⟨x0, x1, r, y0, ys, hx, hy⟩ := hf.shape
  unfold Pwc.first at h0; unfold Pwc.last at h1
  constructor
  · rw [hx] at h0 ⊢
    rw [ssLeft_cons, if_pos (by simpa using h0)]; omega
  · apply ssRight_lt_length
    refine ⟨lastD f.x 0, ?_, h1⟩
    rw [hx]; exact lastD_mem _ _ _

/-- item 6c: at an interior breakpoint `__call__` returns the mean of the two one-sided limits -/
theorem Pwc.call_breakpoint {f : Pwc} (hf : f.WF) {t : Q} (hm : t ∈ f.x)
    (h0 : f.first < t) (h1 : t < f.last) :
    ∃ l r, f.evalL t = some l ∧ f.evalR t = some r ∧ f.call t = (l + r) / 2 := by
  refine ⟨_, _, Pwc.evalL_eq hf h0 h1.le, Pwc.evalR_eq hf h0.le h1, ?_⟩
  have e := ssRight_eq_ssLeft_succ_of_mem hf.2.1 hm
  have hn0 : t ≠ f.x.headD 0 := ne_of_gt h0
  have hn1 : t ≠ lastD f.x 0 := ne_of_lt h1
  unfold Pwc.call
  dsimp only
  rw [if_neg hn0, if_neg hn1, if_pos (by simpa using hm), e]
  simp only [Nat.add_sub_cancel]
  rw [add_comm]
  rfl

/-- item 6d: between breakpoints `__call__` returns the value of the piece -/
theorem Pwc.call_inside {f : Pwc} (hf : f.WF) {t : Q} (hm : t ∉ f.x)
    (h0 : f.first ≤ t) (h1 : t ≤ f.last) :
    ∃ v, f.evalR t = some v ∧ f.call t = v := by
  obtain ⟨x0, x1, r, y0, ys, hx, hy⟩ := hf.shape
  have hn0 : t ≠ f.x.headD 0 := by
    intro e; apply hm; rw [e, hx]; simp
  have hn1 : t ≠ lastD f.x 0 := by
    intro e; apply hm; rw [e, hx]; exact lastD_mem _ _ _
  refine ⟨_, Pwc.evalR_eq hf h0 (lt_of_le_of_ne h1 hn1), ?_⟩
  unfold Pwc.call
  dsimp only
  rw [if_neg hn0, if_neg hn1, if_neg (by simpa using hm)]

example : (3 : Q) ∈ exPwc.x ∧ exPwc.first < 3 ∧ 3 < exPwc.last := by decide +kernel
example : (2 : Q) ∉ exPwc.x ∧ exPwc.first ≤ 2 ∧ 2 ≤ exPwc.last := by decide +kernel

/-- item 7: evaluating a one-element sequence gives the same as evaluating the single time -/
theorem Pwc.callSeq1_eq_call {f : Pwc} (hf : f.WF) {t : Q} (h0 : f.first ≤ t) (h1 : t ≤ f.last) :
    f.callSeq1 t = f.call t := by
  obtain ⟨x0, x1, r, y0, ys, hx, hy⟩ := hf.shape
  have hs := hf.2.1
  have hl := hf.1
  rcases eq_or_lt_of_le h0 with rfl | h0'
  · rw [Pwc.call_first_val]
    have : ssRight f.x f.first = 1 := by
      unfold Pwc.first; rw [hx] at hs ⊢; exact ssRight_first hs
    unfold Pwc.callSeq1
    dsimp only
    rw [this]
    simp [hx, hy]
  rcases eq_or_lt_of_le h1 with rfl | h1'
  · rw [Pwc.call_last_val hf]
    have e1 : ssRight f.x f.last = f.x.length := ssRight_last hs
    have e2 := ssLeft_last f.x hs (by simp [hx])
    have e3 := nth_lastD f.y (by simp [hy])
    have e2' : ssLeft f.x f.last = f.x.length - 1 := by unfold Pwc.last; omega
    have hn : f.x.length ≠ 0 := by simp [hx]
    unfold Pwc.callSeq1
    dsimp only
    rw [e1, if_neg hn, if_pos rfl, e2', if_neg (by simp), ← e3]
    congr 1
    omega
  · obtain ⟨i1, i2⟩ := Pwc.idx_inside hf h0' h1'
    have hle := ssLeft_le_ssRight f.x t
    have hn0 : t ≠ f.x.headD 0 := ne_of_gt h0'
    have hn1 : t ≠ lastD f.x 0 := ne_of_lt h1'
    unfold Pwc.callSeq1 Pwc.call
    dsimp only
    rw [if_neg (by omega : ¬ ssRight f.x t = 0), if_neg (by omega : ¬ ssRight f.x t = f.x.length),
      if_neg hn0, if_neg hn1]
    by_cases hm : t ∈ f.x
    · have e := ssRight_eq_ssLeft_succ_of_mem hs hm
      rw [if_pos (show f.x.contains t = true by simpa using hm),
        if_pos (show ssRight f.x t ≠ ssLeft f.x t ∧ ssRight f.x t > 1 ∧ ssRight f.x t < f.x.length
          by omega)]
    · have e := ssRight_eq_ssLeft_of_not_mem hm
      rw [if_neg (show ¬ f.x.contains t = true by simpa using hm),
        if_neg (show ¬ (ssRight f.x t ≠ ssLeft f.x t ∧ ssRight f.x t > 1 ∧
          ssRight f.x t < f.x.length) by omega)]

example : exPwc.callSeq1 3 = exPwc.call 3 :=
  Pwc.callSeq1_eq_call exPwc_WF (by decide +kernel) (by decide +kernel)

example : exPwc.evalR exPwc.first = some (exPwc.call exPwc.first) := Pwc.call_first exPwc_WF
example : exPwc.evalL exPwc.last = some (exPwc.call exPwc.last) := Pwc.call_last exPwc_WF

/-! ## piecewise constant: plottable data (item 8) -/

theorem flatMap_pair_getElem? {α β : Type} (g h : α → β) : ∀ (l : List α) (k : Nat),
    (l.flatMap fun p => [g p, h p])[2 * k]? = l[k]?.map g ∧
    (l.flatMap fun p => [g p, h p])[2 * k + 1]? = l[k]?.map h
  | [], k => by simp
  | a :: l, 0 => by simp
  | a :: l, k + 1 => by
    have := flatMap_pair_getElem? g h l k
    constructor
    · show (g a :: h a :: (l.flatMap fun p => [g p, h p]))[2 * k + 1 + 1]? = (a :: l)[k + 1]?.map g
      rw [List.getElem?_cons_succ, List.getElem?_cons_succ, List.getElem?_cons_succ]; exact this.1
    · show (g a :: h a :: (l.flatMap fun p => [g p, h p]))[2 * k + 1 + 1 + 1]? = (a :: l)[k + 1]?.map h
      rw [List.getElem?_cons_succ, List.getElem?_cons_succ, List.getElem?_cons_succ]; exact this.2

theorem Pwc.pieces_length {f : Pwc} (hf : f.WF) : f.pieces.length = f.y.length := by
  have := hf.1
  simp only [Pwc.pieces, List.length_zip, List.length_tail]
  omega

/-- piece `k` is `(x[k], x[k+1], y[k])` -/
theorem Pwc.pieces_getElem {f : Pwc} (hf : f.WF) (k : Nat) (hk : k < f.pieces.length) :
    f.pieces[k] = (nth f.x k, nth f.x (k + 1), nth f.y k) := by
  have hl := hf.1
  have hk' := hk
  rw [Pwc.pieces_length hf] at hk'
  have h1 : k < f.x.length := by omega
  have h2 : k + 1 < f.x.length := by omega
  simp only [Pwc.pieces, List.getElem_zip, List.getElem_tail, nth]
  simp [List.getD_eq_getElem?_getD, h1, h2, hk']

/-- item 8: the plottable arrays are `[x0,x1, x1,x2, …]` and `[y0,y0, y1,y1, …]`: entries `2k`, `2k+1`
    of the x array are the two ends of piece `k`, and both y entries are its constant value -/
theorem Pwc.plottable_spec {f : Pwc} (hf : f.WF) :
    f.plottable = (f.pieces.flatMap (fun p => [p.1, p.2.1]), f.pieces.flatMap (fun p => [p.2.2, p.2.2])) ∧
    f.plottable.1.length = 2 * f.y.length ∧ f.plottable.2.length = 2 * f.y.length ∧
    ∀ k, k < f.y.length →
      f.plottable.1[2 * k]? = some (nth f.x k) ∧ f.plottable.1[2 * k + 1]? = some (nth f.x (k + 1)) ∧
      f.plottable.2[2 * k]? = some (nth f.y k) ∧ f.plottable.2[2 * k + 1]? = some (nth f.y k) := by
  refine ⟨rfl, ?_, ?_, ?_⟩
  · simp [Pwc.plottable, List.length_flatMap, Pwc.pieces_length hf, mul_comm]
  · simp [Pwc.plottable, List.length_flatMap, Pwc.pieces_length hf, mul_comm]
  · intro k hk
    rw [← Pwc.pieces_length hf] at hk
    have hp := Pwc.pieces_getElem hf k hk
    have hx := flatMap_pair_getElem? (fun p : Q × Q × Q => p.1) (fun p => p.2.1) f.pieces k
    have hy := flatMap_pair_getElem? (fun p : Q × Q × Q => p.2.2) (fun p => p.2.2) f.pieces k
    simp only [Pwc.plottable]
    rw [hx.1, hx.2, hy.1, hy.2, List.getElem?_eq_getElem hk, hp]
    simp

example : exPwc.plottable = ([0, 1, 1, 3, 3, 4], [2, 2, 5, 5, -1, -1]) := by decide +kernel

/-! # piecewise linear -/

theorem wf3_induction {P : List Q → List Q → List Q → Prop}
    (base : ∀ x0 x1 u0 v0 : Q, x0 < x1 → P [x0, x1] [u0] [v0])
    (step : ∀ (x0 x1 x2 : Q) (r : List Q) (u0 : Q) (us : List Q) (v0 : Q) (vs : List Q), x0 < x1 →
      (x0 :: x1 :: x2 :: r).Pairwise (· < ·) → (x1 :: x2 :: r).Pairwise (· < ·) →
      us.length + 1 = (x1 :: x2 :: r).length → vs.length + 1 = (x1 :: x2 :: r).length →
      P (x1 :: x2 :: r) us vs → P (x0 :: x1 :: x2 :: r) (u0 :: us) (v0 :: vs)) :
    ∀ xs us vs : List Q, xs.Pairwise (· < ·) → us.length + 1 = xs.length →
      vs.length + 1 = xs.length → 2 ≤ xs.length → P xs us vs := by
  intro xs
  induction xs with
  | nil => intro us vs _ _ _ h; simp at h
  | cons x0 r ih =>
    intro us vs hs hl1 hl2 h2
    match r, us, vs, hs, hl1, hl2, h2, ih with
    | [], _, _, _, _, _, h2, _ => simp at h2
    | _ :: _, [], _, _, hl1, _, _, _ => simp at hl1
    | _ :: _, _ :: _, [], _, _, hl2, _, _ => simp at hl2
    | [x1], [u0], [v0], hs, _, _, _, _ => exact base x0 x1 u0 v0 (sorted_head_lt hs x1 (by simp))
    | [x1], _ :: _ :: _, _, _, hl1, _, _, _ => simp at hl1
    | [x1], [_], _ :: _ :: _, _, _, hl2, _, _ => simp at hl2
    | x1 :: x2 :: r', u0 :: us', v0 :: vs', hs, hl1, hl2, _, ih =>
      have hs' := (List.pairwise_cons.mp hs).2
      have hl1' : us'.length + 1 = (x1 :: x2 :: r').length := by simp at hl1 ⊢; omega
      have hl2' : vs'.length + 1 = (x1 :: x2 :: r').length := by simp at hl2 ⊢; omega
      exact step x0 x1 x2 r' u0 us' v0 vs' (sorted_head_lt hs x1 (by simp)) hs hs' hl1' hl2'
        (ih us' vs' hs' hl1' hl2' (by simp))

private theorem Pwl.pieces_cons (x0 x1 : Q) (r : List Q) (u0 : Q) (us : List Q) (v0 : Q) (vs : List Q) :
    (Pwl.mk (x0 :: x1 :: r) (u0 :: us) (v0 :: vs)).pieces
      = ⟨x0, x1, u0, v0⟩ :: (Pwl.mk (x1 :: r) us vs).pieces := by
  simp [Pwl.pieces]

theorem Pwl.pieceAt_succ (x0 : Q) (xs : List Q) (u0 : Q) (us : List Q) (v0 : Q) (vs : List Q) (k : Nat) :
    (Pwl.mk (x0 :: xs) (u0 :: us) (v0 :: vs)).pieceAt (k + 1) = (Pwl.mk xs us vs).pieceAt k := by
  simp [Pwl.pieceAt]

theorem Pwl.pieceAt_zero (x0 x1 : Q) (r : List Q) (u0 : Q) (us : List Q) (v0 : Q) (vs : List Q) :
    (Pwl.mk (x0 :: x1 :: r) (u0 :: us) (v0 :: vs)).pieceAt 0 = ⟨x0, x1, u0, v0⟩ := by
  simp [Pwl.pieceAt]

private theorem Piece.at_xl (p : Piece) : p.at p.xl = p.yl := by simp [Piece.at]

private theorem Piece.at_xr (p : Piece) (h : p.xl < p.xr) : p.at p.xr = p.yr := by
  unfold Piece.at
  have : p.xr - p.xl ≠ 0 := ne_of_gt (sub_pos.mpr h)
  field_simp
  ring

theorem Piece.clipInt_right_zero {p : Piece} {a b : Q} (h : b ≤ p.xl) :
    p.clipInt a b = 0 := by
  unfold Piece.clipInt
  dsimp only
  rw [if_neg]
  have := min_le_left b p.xr
  have := le_max_right a p.xl
  linarith

theorem Piece.clipInt_left_zero {p : Piece} {a b : Q} (h : p.xr ≤ a) : p.clipInt a b = 0 := by
  unfold Piece.clipInt
  dsimp only
  rw [if_neg]
  have := min_le_right b p.xr
  have := le_max_left a p.xl
  linarith

theorem Piece.clipInt_inside {p : Piece} {a b : Q} (hp : p.xl < p.xr) (h1 : a ≤ p.xl) (h3 : p.xr ≤ b) :
    p.clipInt a b = (p.xr - p.xl) * ((p.yl + p.yr) / 2) := by
  unfold Piece.clipInt
  dsimp only
  rw [min_eq_right h3, max_eq_right h1, if_pos hp, Piece.at_xl, Piece.at_xr p hp]

theorem Piece.clipInt_both {p : Piece} {a b : Q} (h1 : p.xl ≤ a) (h2 : a < b) (h3 : b ≤ p.xr) :
    p.clipInt a b = (b - a) * ((p.at a + p.at b) / 2) := by
  unfold Piece.clipInt
  dsimp only
  rw [min_eq_left h3, max_eq_left h1, if_pos h2]

theorem Piece.clipInt_left {p : Piece} {a b : Q} (h1 : p.xl ≤ a) (h2 : a < p.xr) (h3 : p.xr ≤ b) :
    p.clipInt a b = (p.xr - a) * ((p.at a + p.yr) / 2) := by
  unfold Piece.clipInt
  dsimp only
  rw [min_eq_right h3, max_eq_left h1, if_pos h2, Piece.at_xr p (lt_of_le_of_lt h1 h2)]

theorem Piece.clipInt_right {p : Piece} {a b : Q} (h1 : a ≤ p.xl) (h2 : p.xl < b) (h3 : b ≤ p.xr) :
    p.clipInt a b = (b - p.xl) * ((p.yl + p.at b) / 2) := by
  unfold Piece.clipInt
  dsimp only
  rw [min_eq_left h3, max_eq_right h1, if_pos h2, Piece.at_xl]

theorem Pwl.riemann_cons (a b x0 x1 : Q) (r : List Q) (u0 : Q) (us : List Q) (v0 : Q) (vs : List Q) :
    (Pwl.mk (x0 :: x1 :: r) (u0 :: us) (v0 :: vs)).riemann a b
      = (Piece.mk x0 x1 u0 v0).clipInt a b + (Pwl.mk (x1 :: r) us vs).riemann a b := by
  simp [Pwl.riemann, Pwl.pieces_cons, qsum]

/-- all pieces to the right of `b` contribute nothing -/
theorem Pwl.riemann_right_zero (a b : Q) : ∀ (xs us vs : List Q),
    (∀ x ∈ xs, b ≤ x) → (Pwl.mk xs us vs).riemann a b = 0
  | [], _, _, _ => by simp [Pwl.riemann, Pwl.pieces, qsum]
  | [_], _, _, _ => by simp [Pwl.riemann, Pwl.pieces, qsum]
  | _ :: _ :: _, [], _, _ => by simp [Pwl.riemann, Pwl.pieces, qsum]
  | _ :: _ :: _, _ :: _, [], _ => by simp [Pwl.riemann, Pwl.pieces, qsum]
  | x0 :: x1 :: r, u0 :: us, v0 :: vs, h => by
    rw [Pwl.riemann_cons, Piece.clipInt_right_zero (p := ⟨x0, x1, u0, v0⟩) (h x0 (by simp)),
      Pwl.riemann_right_zero a b (x1 :: r) us vs (fun x hx => h x (List.mem_cons_of_mem _ hx))]
    ring

/-! ## piecewise linear: the index arithmetic of `integral` -/

/-- the part of the general code path to the right of the first breakpoint after `a` -/
def pwlTail (f : Pwl) (b : Q) : Q :=
  let m := ssLeft f.x b - 1
  qsum ((f.pieces.take m).map fun p => (p.xr - p.xl) * ((p.yl + p.yr) / 2))
    + (b - nth f.x m) / 2 * (nth f.y1 m + (f.pieceAt m).at b)

theorem pwlTail_eq (a b : Q) : ∀ xs us vs : List Q, xs.Pairwise (· < ·) → us.length + 1 = xs.length →
    vs.length + 1 = xs.length → 2 ≤ xs.length → a ≤ xs.headD 0 → xs.headD 0 < b → b ≤ lastD xs 0 →
    pwlTail ⟨xs, us, vs⟩ b = (Pwl.mk xs us vs).riemann a b := by
  apply wf3_induction
  · intro x0 x1 u0 v0 h01 ha hb hbl
    simp only [List.headD_cons, lastD_cons_cons, lastD_singleton] at ha hb hbl
    have h1 : ssLeft [x0, x1] b = 1 := by
      simp [ssLeft_cons, hb, not_lt.mpr hbl]
    rw [Pwl.riemann_cons, Pwl.riemann_right_zero a b _ _ _ (by simpa using hbl),
      Piece.clipInt_right (p := ⟨x0, x1, u0, v0⟩) ha hb hbl]
    simp only [pwlTail, h1]
    simp [Pwl.pieceAt, qsum]
    ring
  · intro x0 x1 x2 r u0 us v0 vs h01 hs hs' hl1 hl2 ih ha hb hbl
    simp only [List.headD_cons, lastD_cons_cons] at ha hb hbl ih
    rw [Pwl.riemann_cons]
    by_cases hb1 : b ≤ x1
    · have hge : ∀ x ∈ x1 :: x2 :: r, b ≤ x := by
        intro x hx
        rcases List.mem_cons.mp hx with rfl | hx
        · exact hb1
        · exact le_trans hb1 (le_of_lt (sorted_head_lt hs' x hx))
      have h1 : ssLeft (x0 :: x1 :: x2 :: r) b = 1 := by
        rw [ssLeft_cons, if_pos hb, ssLeft_eq_zero hge]
      rw [Pwl.riemann_right_zero a b _ _ _ hge,
        Piece.clipInt_right (p := ⟨x0, x1, u0, v0⟩) ha hb hb1]
      simp only [pwlTail, h1]
      simp [Pwl.pieceAt, qsum]
      ring
    · have hb1 : x1 < b := not_le.mp hb1
      have ih := ih (le_trans ha h01.le) hb1 hbl
      obtain ⟨m, hm⟩ : ∃ m, ssLeft (x1 :: x2 :: r) b = m + 1 := by
        rw [ssLeft_cons, if_pos hb1]; exact ⟨_, rfl⟩
      have h1 : ssLeft (x0 :: x1 :: x2 :: r) b = m + 2 := by
        rw [ssLeft_cons, if_pos hb, hm]
      rw [← ih, Piece.clipInt_inside (p := ⟨x0, x1, u0, v0⟩) h01 ha hb1.le]
      simp only [pwlTail, h1, hm, Nat.add_sub_cancel, Pwl.pieces_cons]
      rw [show m + 2 - 1 = m + 1 from rfl, Pwl.pieceAt_succ]
      simp [qsum]
      ring

theorem Pwl.integral_shift (x0 x1 : Q) (r : List Q) (u0 : Q) (us : List Q) (v0 : Q) (vs : List Q)
    (a b : Q) (h0 : x0 ≤ a) (h1 : x1 ≤ a) (hab : a < b) :
    (Pwl.mk (x0 :: x1 :: r) (u0 :: us) (v0 :: vs)).integral a b
      = (Pwl.mk (x1 :: r) us vs).integral a b := by
  obtain ⟨k, hk⟩ : ∃ k, ssRight (x1 :: r) a = k + 1 := by
    rw [ssRight_cons, if_pos h1]; exact ⟨_, rfl⟩
  obtain ⟨m, hm⟩ : ∃ m, ssLeft (x1 :: r) b = m + 1 := by
    rw [ssLeft_cons, if_pos (lt_of_le_of_lt h1 hab)]; exact ⟨_, rfl⟩
  have hk' : ssRight (x0 :: x1 :: r) a = k + 2 := by rw [ssRight_cons, if_pos h0, hk]
  have hm' : ssLeft (x0 :: x1 :: r) b = m + 2 := by
    rw [ssLeft_cons, if_pos (lt_of_le_of_lt h0 hab), hm]
  unfold Pwl.integral
  dsimp only
  simp only [hk, hm, hk', hm']
  have e1 : (m + 2 = 0 ∨ k + 2 > m + 2 - 1) ↔ (m + 1 = 0 ∨ k + 1 > m + 1 - 1) := by omega
  simp only [e1]
  rw [if_neg (show ¬ k + 2 = 0 by omega), if_neg (show ¬ k + 1 = 0 by omega)]
  rw [show k + 2 - 1 = k + 1 from rfl, show m + 2 - 1 = m + 1 from rfl,
    show k + 1 - 1 = k from rfl, show m + 1 - 1 = m from rfl,
    Pwl.pieceAt_succ, Pwl.pieceAt_succ, Pwl.pieces_cons]
  split
  · rfl
  · have e2 : m + 1 - (k + 2) = m - (k + 1) := by omega
    simp [e2]

theorem pwlIntegral_eq (a b : Q) (hab : a < b) : ∀ xs us vs : List Q, xs.Pairwise (· < ·) →
    us.length + 1 = xs.length → vs.length + 1 = xs.length → 2 ≤ xs.length →
    xs.headD 0 ≤ a → b ≤ lastD xs 0 →
    (Pwl.mk xs us vs).integral a b = some ((Pwl.mk xs us vs).riemann a b) := by
  apply wf3_induction
  · intro x0 x1 u0 v0 h01 ha hbl
    simp only [List.headD_cons, lastD_cons_cons, lastD_singleton] at ha hbl
    have h1 : ssLeft [x0, x1] b = 1 := by
      simp [ssLeft_cons, lt_of_le_of_lt ha hab, not_lt.mpr hbl]
    have h2 : ssRight [x0, x1] a = 1 := by
      simp [ssRight_cons, ha, not_le.mpr (lt_of_lt_of_le hab hbl)]
    rw [Pwl.riemann_cons, Pwl.riemann_right_zero a b _ _ _ (by simpa using hbl),
      Piece.clipInt_both (p := ⟨x0, x1, u0, v0⟩) ha hab hbl]
    unfold Pwl.integral
    dsimp only
    simp only [h1, h2]
    simp [Pwl.pieceAt]
    ring
  · intro x0 x1 x2 r u0 us v0 vs h01 hs hs' hl1 hl2 ih ha hbl
    simp only [List.headD_cons, lastD_cons_cons] at ha hbl ih
    have hx0b : x0 < b := lt_of_le_of_lt ha hab
    by_cases ha1 : x1 ≤ a
    · rw [Pwl.integral_shift x0 x1 _ u0 us v0 vs a b ha ha1 hab, ih ha1 hbl, Pwl.riemann_cons,
        Piece.clipInt_left_zero (p := ⟨x0, x1, u0, v0⟩) ha1]
      simp
    · have ha1 : a < x1 := not_le.mp ha1
      have hgt : ∀ x ∈ x1 :: x2 :: r, x1 ≤ x := by
        intro x hx
        rcases List.mem_cons.mp hx with rfl | hx
        · exact le_refl _
        · exact le_of_lt (sorted_head_lt hs' x hx)
      have hsi : ssRight (x0 :: x1 :: x2 :: r) a = 1 := by
        rw [ssRight_cons, if_pos ha, ssRight_eq_zero]
        exact fun x hx => lt_of_lt_of_le ha1 (hgt x hx)
      rw [Pwl.riemann_cons]
      by_cases hb1 : b ≤ x1
      · have hei : ssLeft (x0 :: x1 :: x2 :: r) b = 1 := by
          rw [ssLeft_cons, if_pos hx0b, ssLeft_eq_zero]
          exact fun x hx => le_trans hb1 (hgt x hx)
        rw [Pwl.riemann_right_zero a b _ _ _ (fun x hx => le_trans hb1 (hgt x hx)),
          Piece.clipInt_both (p := ⟨x0, x1, u0, v0⟩) ha hab hb1]
        unfold Pwl.integral
        dsimp only
        simp only [hsi, hei]
        simp [Pwl.pieceAt]
        ring
      · have hb1 : x1 < b := not_le.mp hb1
        obtain ⟨m, hm⟩ : ∃ m, ssLeft (x1 :: x2 :: r) b = m + 1 := by
          rw [ssLeft_cons, if_pos hb1]; exact ⟨_, rfl⟩
        have hei : ssLeft (x0 :: x1 :: x2 :: r) b = m + 2 := by
          rw [ssLeft_cons, if_pos hx0b, hm]
        have ht := pwlTail_eq a b (x1 :: x2 :: r) us vs hs' hl1 hl2 (by simp) ha1.le hb1 hbl
        rw [← ht, Piece.clipInt_left (p := ⟨x0, x1, u0, v0⟩) ha ha1 hb1.le]
        unfold Pwl.integral
        dsimp only
        simp only [hsi, hei]
        rw [if_neg (show ¬ (1 = 0) by omega),
          if_neg (show ¬ (m + 2 = 0 ∨ 1 > m + 2 - 1) by omega)]
        rw [show m + 2 - 1 = m + 1 from rfl, show 1 - 1 = 0 from rfl,
          Pwl.pieceAt_succ, Pwl.pieceAt_zero, Pwl.pieces_cons]
        simp only [pwlTail, hm]
        simp
        ring

/-! ## piecewise linear: main theorems (items 1–5) -/

/-- a concrete well-formed piecewise linear function used in the examples: breakpoints `0,1,3,4`,
    left values `2,5,-1`, right values `3,1,0` (discontinuous at `1` and `3`) -/
def exPwl : Pwl := ⟨[0, 1, 3, 4], [2, 5, -1], [3, 1, 0]⟩

theorem exPwl_WF : exPwl.WF := by
  refine ⟨rfl, rfl, ?_, by decide⟩
  simp [exPwl]; norm_num

theorem Pwl.first_lt_last {f : Pwl} (hf : f.WF) : f.first < f.last := by
  obtain ⟨_, _, hs, h2⟩ := hf
  unfold Pwl.first Pwl.last
  match hx : f.x, hs, h2 with
  | [], _, h2 => simp at h2
  | [_], _, h2 => simp at h2
  | a :: b :: r, hs, _ => exact sorted_head_lt_last hs

/-- item 1: `integral((a,b))` is the exact integral (trapezoid on every clipped piece) -/
theorem Pwl.integral_eq_riemann {f : Pwl} (hf : f.WF) {a b : Q}
    (ha : f.first ≤ a) (hab : a < b) (hb : b ≤ f.last) :
    f.integral a b = some (f.riemann a b) :=
  pwlIntegral_eq a b hab f.x f.y1 f.y2 hf.2.2.1 hf.1 hf.2.1 hf.2.2.2 ha hb

example : exPwl.integral (1/2) (7/2) = some (exPwl.riemann (1/2) (7/2)) :=
  Pwl.integral_eq_riemann exPwl_WF (by decide +kernel) (by decide +kernel) (by decide +kernel)

/-- item 2: `integral()` is the integral over the whole support -/
theorem pwlR_all : ∀ xs us vs : List Q, xs.Pairwise (· < ·) → us.length + 1 = xs.length →
    vs.length + 1 = xs.length → 2 ≤ xs.length → ∀ a, a ≤ xs.headD 0 →
    (Pwl.mk xs us vs).riemann a (lastD xs 0) = (Pwl.mk xs us vs).integralAll := by
  apply wf3_induction
  · intro x0 x1 u0 v0 h01 a ha
    simp only [List.headD_cons] at ha
    rw [Pwl.riemann_cons, Pwl.riemann_right_zero _ _ _ _ _ (by simp),
      Piece.clipInt_inside (p := ⟨x0, x1, u0, v0⟩) h01 ha (by simp)]
    simp [Pwl.integralAll, Pwl.pieces, qsum]
  · intro x0 x1 x2 r u0 us v0 vs h01 hs hs' hl1 hl2 ih a ha
    simp only [List.headD_cons, lastD_cons_cons] at ha ih ⊢
    have hl1 : x1 ≤ lastD (x2 :: r) 0 := by
      have := sorted_le_last hs' x1 (by simp)
      simpa using this
    rw [Pwl.riemann_cons, ih a (le_trans ha h01.le),
      Piece.clipInt_inside (p := ⟨x0, x1, u0, v0⟩) h01 ha hl1]
    simp [Pwl.integralAll, Pwl.pieces_cons, qsum]

theorem Pwl.integralAll_eq_riemann {f : Pwl} (hf : f.WF) :
    f.integralAll = f.riemann f.first f.last :=
  (pwlR_all f.x f.y1 f.y2 hf.2.2.1 hf.1 hf.2.1 hf.2.2.2 _ (le_refl _)).symm

example : exPwl.integralAll = exPwl.riemann exPwl.first exPwl.last :=
  Pwl.integralAll_eq_riemann exPwl_WF

/-- item 3: additivity over adjacent intervals -/
theorem Piece.clipInt_self (p : Piece) (a : Q) : p.clipInt a a = 0 := by
  unfold Piece.clipInt
  dsimp only
  rw [if_neg]
  have := min_le_left a p.xr
  have := le_max_left a p.xl
  linarith

theorem Piece.clipInt_additive_lt {p : Piece} {a b c : Q} (hab : a < b) (hbc : b < c)
    (hp : p.xl < p.xr) : p.clipInt a c = p.clipInt a b + p.clipInt b c := by
  obtain ⟨l, r, u, v⟩ := p
  have hd : r - l ≠ 0 := ne_of_gt (sub_pos.mpr hp)
  simp only [Piece.clipInt, Piece.at, max_def, min_def]
  split_ifs <;> first
    | (exfalso; linarith)
    | (field_simp; ring1)
    | (have hbr : b = r := by linarith
       subst hbr; field_simp; ring1)

theorem Piece.clipInt_additive {p : Piece} {a b c : Q} (hab : a ≤ b) (hbc : b ≤ c)
    (hp : p.xl < p.xr) : p.clipInt a c = p.clipInt a b + p.clipInt b c := by
  rcases eq_or_lt_of_le hab with rfl | hab
  · rw [Piece.clipInt_self]; ring
  rcases eq_or_lt_of_le hbc with rfl | hbc
  · rw [Piece.clipInt_self]; ring
  exact Piece.clipInt_additive_lt hab hbc hp

theorem pwlR_additive {a b c : Q} (hab : a ≤ b) (hbc : b ≤ c) :
    ∀ xs us vs : List Q, xs.Pairwise (· < ·) →
      (Pwl.mk xs us vs).riemann a c = (Pwl.mk xs us vs).riemann a b + (Pwl.mk xs us vs).riemann b c
  | [], _, _, _ => by simp [Pwl.riemann, Pwl.pieces, qsum]
  | [_], _, _, _ => by simp [Pwl.riemann, Pwl.pieces, qsum]
  | _ :: _ :: _, [], _, _ => by simp [Pwl.riemann, Pwl.pieces, qsum]
  | _ :: _ :: _, _ :: _, [], _ => by simp [Pwl.riemann, Pwl.pieces, qsum]
  | x0 :: x1 :: r, u0 :: us, v0 :: vs, h => by
    rw [Pwl.riemann_cons, Pwl.riemann_cons, Pwl.riemann_cons,
      pwlR_additive hab hbc (x1 :: r) us vs (List.pairwise_cons.mp h).2,
      Piece.clipInt_additive (p := ⟨x0, x1, u0, v0⟩) hab hbc (sorted_head_lt h x1 (by simp))]
    ring

theorem Pwl.riemann_additive' {f : Pwl} (hf : f.WF) {a b c : Q} (hab : a ≤ b) (hbc : b ≤ c) :
    f.riemann a c = f.riemann a b + f.riemann b c :=
  pwlR_additive hab hbc f.x f.y1 f.y2 hf.2.2.1

theorem Pwl.riemann_additive {f : Pwl} (hf : f.WF) {a b c : Q}
    (_ha : f.first ≤ a) (hab : a ≤ b) (hbc : b ≤ c) (_hc : c ≤ f.last) :
    f.riemann a c = f.riemann a b + f.riemann b c :=
  Pwl.riemann_additive' hf hab hbc

example : exPwl.riemann (1/2) (7/2) = exPwl.riemann (1/2) 3 + exPwl.riemann 3 (7/2) :=
  Pwl.riemann_additive exPwl_WF (by decide +kernel) (by decide +kernel) (by decide +kernel)
    (by decide +kernel)

theorem Pwl.integral_additive {f : Pwl} (hf : f.WF) {a b c : Q}
    (ha : f.first ≤ a) (hab : a < b) (hbc : b < c) (hc : c ≤ f.last) :
    ∃ u v, f.integral a b = some u ∧ f.integral b c = some v ∧ f.integral a c = some (u + v) :=
  ⟨_, _, Pwl.integral_eq_riemann hf ha hab (le_trans hbc.le hc),
    Pwl.integral_eq_riemann hf (le_trans ha hab.le) hbc hc, by
    rw [Pwl.integral_eq_riemann hf ha (lt_trans hab hbc) hc,
      Pwl.riemann_additive hf ha hab.le hbc.le hc]⟩

theorem Pwl.integral_full {f : Pwl} (hf : f.WF) :
    f.integral f.first f.last = some f.integralAll := by
  rw [Pwl.integral_eq_riemann hf (le_refl _) (Pwl.first_lt_last hf) (le_refl _),
    Pwl.integralAll_eq_riemann hf]

/-- item 4: `Pwl.integral` has no `ValueError` paths; the model returns `none` (assertion failure)
    exactly when `searchsorted(x, a, 'right') = 0`, i.e. `a` lies before the first breakpoint -/
theorem Pwl.integral_eq_none_iff_idx (f : Pwl) (a b : Q) :
    f.integral a b = none ↔ ssRight f.x a = 0 := by
  unfold Pwl.integral
  dsimp only
  constructor
  · intro h
    by_contra hn
    rw [if_neg hn] at h
    split at h <;> exact Option.some_ne_none _ h
  · intro h; rw [if_pos h]

theorem Pwl.ssRight_eq_zero_iff {f : Pwl} (hf : f.WF) (a : Q) : ssRight f.x a = 0 ↔ a < f.first := by
  obtain ⟨_, _, hs, h2⟩ := hf
  unfold Pwl.first
  match hx : f.x, hs, h2 with
  | [], _, h2 => simp at h2
  | x0 :: r, hs, _ =>
    constructor
    · intro h
      by_contra hn
      rw [ssRight_cons, if_pos (by simpa using hn)] at h
      omega
    · intro h
      apply ssRight_eq_zero
      intro x hx
      simp only [List.headD_cons] at h
      rcases List.mem_cons.mp hx with rfl | hx
      · exact h
      · exact lt_trans h (sorted_head_lt hs x hx)

theorem Pwl.integral_eq_none_iff {f : Pwl} (hf : f.WF) (a b : Q) :
    f.integral a b = none ↔ a < f.first := by
  rw [Pwl.integral_eq_none_iff_idx, Pwl.ssRight_eq_zero_iff hf]

theorem Pwl.integral_reject {f : Pwl} (hf : f.WF) {a b : Q} (h : a < f.first) :
    f.integral a b = none := (Pwl.integral_eq_none_iff hf a b).mpr h

example : exPwl.integral (-1) 2 = none := Pwl.integral_reject exPwl_WF (by decide +kernel)

/-- item 5: averages -/
theorem Pwl.avrg_eq {f : Pwl} (hf : f.WF) {a b : Q}
    (ha : f.first ≤ a) (hab : a < b) (hb : b ≤ f.last) :
    f.avrg a b = some (f.riemann a b / (b - a)) := by
  unfold Pwl.avrg; rw [Pwl.integral_eq_riemann hf ha hab hb]; rfl

example : exPwl.avrg 1 4 = some (exPwl.riemann 1 4 / (4 - 1)) :=
  Pwl.avrg_eq exPwl_WF (by decide +kernel) (by decide +kernel) (by decide +kernel)

theorem Pwl.avrgAll_eq {f : Pwl} (hf : f.WF) :
    f.avrgAll = f.riemann f.first f.last / (f.last - f.first) := by
  unfold Pwl.avrgAll; rw [Pwl.integralAll_eq_riemann hf]; rfl

example : exPwl.avrgAll = exPwl.riemann exPwl.first exPwl.last / (exPwl.last - exPwl.first) :=
  Pwl.avrgAll_eq exPwl_WF

theorem Pwl.avrgList_go_eq {f : Pwl} (hf : f.WF) : ∀ (ivs : List (Q × Q)) (acc len : Q),
    (∀ i ∈ ivs, f.first ≤ i.1 ∧ i.1 < i.2 ∧ i.2 ≤ f.last) →
    Pwl.avrgList.go f ivs acc len
      = some ((acc + qsum (ivs.map fun i => f.riemann i.1 i.2))
              / (len + qsum (ivs.map fun i => i.2 - i.1)))
  | [], acc, len, _ => by simp [Pwl.avrgList.go, qsum]
  | (a, b) :: r, acc, len, h => by
    have hi := h (a, b) (by simp)
    rw [Pwl.avrgList.go, Pwl.integral_eq_riemann hf hi.1 hi.2.1 hi.2.2]
    dsimp only
    rw [Pwl.avrgList_go_eq hf r _ _ (fun i hi => h i (List.mem_cons_of_mem _ hi))]
    simp only [List.map_cons, qsum]
    congr 2 <;> ring

theorem Pwl.avrgList_eq {f : Pwl} (hf : f.WF) (ivs : List (Q × Q))
    (h : ∀ i ∈ ivs, f.first ≤ i.1 ∧ i.1 < i.2 ∧ i.2 ≤ f.last) :
    f.avrgList ivs
      = some (qsum (ivs.map fun i => f.riemann i.1 i.2) / qsum (ivs.map fun i => i.2 - i.1)) := by
  unfold Pwl.avrgList
  rw [Pwl.avrgList_go_eq hf ivs 0 0 h]
  simp

example : exPwl.avrgList [(0, 1/2), (2, 4)]
    = some (qsum ([(0, 1/2), (2, 4)].map fun i => exPwl.riemann i.1 i.2)
            / qsum ([((0:Q), (1/2:Q)), (2, 4)].map fun i => i.2 - i.1)) :=
  Pwl.avrgList_eq exPwl_WF _ (by decide +kernel)

/-! ## piecewise linear: evaluation (items 6, 7) -/

theorem Piece.at_eq_yl {p : Piece} {t : Q} (h : t = p.xl) : p.at t = p.yl := by
  rw [h]; exact p.at_xl

theorem Piece.at_eq_yr {p : Piece} {t : Q} (h : t = p.xr) (hl : p.xl < t) : p.at t = p.yr := by
  rw [h] at hl ⊢; exact p.at_xr hl

theorem ssRight_pos_of_mem : ∀ {xs : List Q} {t : Q}, t ∈ xs → 1 ≤ ssRight xs t
  | [], _, h => by simp at h
  | x :: r, t, h => by
    rw [ssRight_cons]
    rcases List.mem_cons.mp h with rfl | h
    · rw [if_pos (le_refl _)]; omega
    · have := ssRight_pos_of_mem h
      split <;> omega

/-- `x[searchsorted(x, t, 'right') - 1] = t` for a breakpoint `t` -/
theorem nth_ssRight_of_mem : ∀ {xs : List Q} {t : Q}, xs.Pairwise (· < ·) → t ∈ xs →
    nth xs (ssRight xs t - 1) = t
  | [], _, _, h => by simp at h
  | x :: r, t, hs, h => by
    have hs' := List.pairwise_cons.mp hs
    rcases List.mem_cons.mp h with rfl | h
    · rw [ssRight_first hs]; simp
    · have hlt : x < t := hs'.1 t h
      obtain ⟨k, hk⟩ : ∃ k, ssRight r t = k + 1 := ⟨ssRight r t - 1, by
        have := ssRight_pos_of_mem h; omega⟩
      have ih := nth_ssRight_of_mem hs'.2 h
      rw [hk] at ih
      rw [ssRight_cons, if_pos hlt.le, hk]
      simpa using ih

/-- the piece `[x_k, x_{k+1})` containing `t` has index `searchsorted(x, t, 'right') - 1` -/
theorem pwl_findR_idx (t : Q) : ∀ xs us vs : List Q, xs.Pairwise (· < ·) → us.length + 1 = xs.length →
    vs.length + 1 = xs.length → 2 ≤ xs.length → xs.headD 0 ≤ t → t < lastD xs 0 →
    (Pwl.mk xs us vs).pieces.find? (fun p => decide (p.xl ≤ t ∧ t < p.xr))
      = some ((Pwl.mk xs us vs).pieceAt (ssRight xs t - 1)) := by
  apply wf3_induction
  · intro x0 x1 u0 v0 h01 h0 h1
    simp only [List.headD_cons, lastD_cons_cons, lastD_singleton] at h0 h1
    have : ssRight [x0, x1] t = 1 := by simp [ssRight_cons, h0, not_le.mpr h1]
    rw [this, Pwl.pieces_cons, Pwl.pieceAt_zero]
    simp [h0, h1]
  · intro x0 x1 x2 r u0 us v0 vs h01 hs hs' hl1 hl2 ih h0 h1
    simp only [List.headD_cons, lastD_cons_cons] at h0 h1 ih
    rw [Pwl.pieces_cons]
    by_cases ht : t < x1
    · have : ssRight (x0 :: x1 :: x2 :: r) t = 1 := by
        rw [ssRight_cons, if_pos h0, ssRight_eq_zero]
        intro x hx
        rcases List.mem_cons.mp hx with rfl | hx
        · exact ht
        · exact lt_trans ht (sorted_head_lt hs' x hx)
      rw [this, Pwl.pieceAt_zero]
      simp [h0, ht]
    · have ht : x1 ≤ t := not_lt.mp ht
      obtain ⟨k, hk⟩ : ∃ k, ssRight (x1 :: x2 :: r) t = k + 1 := by
        rw [ssRight_cons, if_pos ht]; exact ⟨_, rfl⟩
      have : ssRight (x0 :: x1 :: x2 :: r) t = k + 2 := by rw [ssRight_cons, if_pos h0, hk]
      have ih := ih ht h1
      rw [hk] at ih
      rw [this, List.find?_cons_of_neg (by simp [not_lt.mpr ht]), ih,
        show k + 2 - 1 = k + 1 from rfl, Pwl.pieceAt_succ]
      rfl

/-- the piece `(x_k, x_{k+1}]` containing `t` has index `searchsorted(x, t, 'left') - 1` -/
theorem pwl_findL_idx (t : Q) : ∀ xs us vs : List Q, xs.Pairwise (· < ·) → us.length + 1 = xs.length →
    vs.length + 1 = xs.length → 2 ≤ xs.length → xs.headD 0 < t → t ≤ lastD xs 0 →
    (Pwl.mk xs us vs).pieces.find? (fun p => decide (p.xl < t ∧ t ≤ p.xr))
      = some ((Pwl.mk xs us vs).pieceAt (ssLeft xs t - 1)) := by
  apply wf3_induction
  · intro x0 x1 u0 v0 h01 h0 h1
    simp only [List.headD_cons, lastD_cons_cons, lastD_singleton] at h0 h1
    have : ssLeft [x0, x1] t = 1 := by simp [ssLeft_cons, h0, not_lt.mpr h1]
    rw [this, Pwl.pieces_cons, Pwl.pieceAt_zero]
    simp [h0, h1]
  · intro x0 x1 x2 r u0 us v0 vs h01 hs hs' hl1 hl2 ih h0 h1
    simp only [List.headD_cons, lastD_cons_cons] at h0 h1 ih
    rw [Pwl.pieces_cons]
    by_cases ht : t ≤ x1
    · have : ssLeft (x0 :: x1 :: x2 :: r) t = 1 := by
        rw [ssLeft_cons, if_pos h0, ssLeft_eq_zero]
        intro x hx
        rcases List.mem_cons.mp hx with rfl | hx
        · exact ht
        · exact le_trans ht (sorted_head_lt hs' x hx).le
      rw [this, Pwl.pieceAt_zero]
      simp [h0, ht]
    · have ht : x1 < t := not_le.mp ht
      obtain ⟨k, hk⟩ : ∃ k, ssLeft (x1 :: x2 :: r) t = k + 1 := by
        rw [ssLeft_cons, if_pos ht]; exact ⟨_, rfl⟩
      have : ssLeft (x0 :: x1 :: x2 :: r) t = k + 2 := by rw [ssLeft_cons, if_pos h0, hk]
      have ih := ih ht h1
      rw [hk] at ih
      rw [this, List.find?_cons_of_neg (by simp [not_le.mpr ht]), ih,
        show k + 2 - 1 = k + 1 from rfl, Pwl.pieceAt_succ]
      rfl

/-- right limit = interpolation in piece `searchsorted(x,t,'right') - 1`, which contains `t` -/
theorem Pwl.evalR_eq {f : Pwl} (hf : f.WF) {t : Q} (h0 : f.first ≤ t) (h1 : t < f.last) :
    f.evalR t = some ((f.pieceAt (ssRight f.x t - 1)).at t) ∧
    (f.pieceAt (ssRight f.x t - 1)).xl ≤ t ∧ t < (f.pieceAt (ssRight f.x t - 1)).xr := by
  have h := pwl_findR_idx t f.x f.y1 f.y2 hf.2.2.1 hf.1 hf.2.1 hf.2.2.2 h0 h1
  have hp := List.find?_some h
  simp only [decide_eq_true_eq] at hp
  refine ⟨?_, hp⟩
  show (f.pieces.find? _).map _ = _
  rw [show f.pieces = (Pwl.mk f.x f.y1 f.y2).pieces from rfl, h]
  rfl

/-- left limit = interpolation in piece `searchsorted(x,t,'left') - 1`, which contains `t` -/
theorem Pwl.evalL_eq {f : Pwl} (hf : f.WF) {t : Q} (h0 : f.first < t) (h1 : t ≤ f.last) :
    f.evalL t = some ((f.pieceAt (ssLeft f.x t - 1)).at t) ∧
    (f.pieceAt (ssLeft f.x t - 1)).xl < t ∧ t ≤ (f.pieceAt (ssLeft f.x t - 1)).xr := by
  have h := pwl_findL_idx t f.x f.y1 f.y2 hf.2.2.1 hf.1 hf.2.1 hf.2.2.2 h0 h1
  have hp := List.find?_some h
  simp only [decide_eq_true_eq] at hp
  refine ⟨?_, hp⟩
  show (f.pieces.find? _).map _ = _
  rw [show f.pieces = (Pwl.mk f.x f.y1 f.y2).pieces from rfl, h]
  rfl

theorem Pwl.WF.shape {f : Pwl} (hf : f.WF) :
    ∃ x0 x1 r u0 us v0 vs, f.x = x0 :: x1 :: r ∧ f.y1 = u0 :: us ∧ f.y2 = v0 :: vs := by
  obtain ⟨hl1, hl2, _, h2⟩ := hf
  match hx : f.x, hy1 : f.y1, hy2 : f.y2, hl1, hl2, h2 with
  | [], _, _, _, _, h2 => simp at h2
  | [_], _, _, _, _, h2 => simp at h2
  | _ :: _ :: _, [], _, hl1, _, _ => simp at hl1
  | _ :: _ :: _, _ :: _, [], _, hl2, _ => simp at hl2
  | x0 :: x1 :: r, u0 :: us, v0 :: vs, _, _, _ => exact ⟨x0, x1, r, u0, us, v0, vs, rfl, rfl, rfl⟩

theorem Pwl.call_first_val (f : Pwl) : f.call f.first = f.y1.headD 0 := by
  simp [Pwl.first, Pwl.call]

theorem Pwl.pieceAt_zero_at_first {f : Pwl} (hf : f.WF) : (f.pieceAt 0).at f.first = f.y1.headD 0 := by
  obtain ⟨x0, x1, r, u0, us, v0, vs, hx, hy1, hy2⟩ := hf.shape
  have : (f.pieceAt 0).at f.first = (f.pieceAt 0).yl :=
    Piece.at_eq_yl (by simp [Pwl.pieceAt, Pwl.first, hx])
  rw [this]
  simp [Pwl.pieceAt, hy1]

/-- item 6a: at the first breakpoint `__call__` returns the right limit -/
theorem Pwl.call_first {f : Pwl} (hf : f.WF) : f.evalR f.first = some (f.call f.first) := by
  rw [(Pwl.evalR_eq hf (le_refl _) (Pwl.first_lt_last hf)).1, Pwl.call_first_val]
  obtain ⟨x0, x1, r, u0, us, v0, vs, hx, hy1, hy2⟩ := hf.shape
  have hs := hf.2.2.1
  have : ssRight f.x f.first = 1 := by
    unfold Pwl.first; rw [hx] at hs ⊢; exact ssRight_first hs
  rw [this, show 1 - 1 = 0 from rfl, Pwl.pieceAt_zero_at_first hf]

theorem Pwl.call_last_val {f : Pwl} (hf : f.WF) : f.call f.last = lastD f.y2 0 := by
  have h := ne_of_gt (Pwl.first_lt_last hf)
  unfold Pwl.first Pwl.last at h
  unfold Pwl.call Pwl.last
  dsimp only
  rw [if_neg h, if_pos rfl]

/-- interpolating the last piece at the last breakpoint gives the last right-hand value -/
theorem Pwl.pieceAt_last_at {f : Pwl} (hf : f.WF) :
    ssLeft f.x f.last = f.x.length - 1 ∧
    (f.pieceAt (f.x.length - 1 - 1)).at f.last = lastD f.y2 0 := by
  obtain ⟨x0, x1, r, u0, us, v0, vs, hx, hy1, hy2⟩ := hf.shape
  have hs := hf.2.2.1
  have e2 := ssLeft_last f.x hs (by simp [hx])
  have e2' : ssLeft f.x f.last = f.x.length - 1 := by unfold Pwl.last; omega
  refine ⟨e2', ?_⟩
  obtain ⟨_, hlt, _⟩ := Pwl.evalL_eq hf (Pwl.first_lt_last hf) (le_refl _)
  rw [e2'] at hlt
  have hlen : 2 ≤ f.x.length := hf.2.2.2
  have hxr : f.last = (f.pieceAt (f.x.length - 1 - 1)).xr := by
    have := nth_lastD f.x (by simp [hx])
    unfold Pwl.last
    rw [← this]
    simp only [Pwl.pieceAt]
    congr 1
    omega
  rw [Piece.at_eq_yr hxr hlt]
  have e3 := nth_lastD f.y2 (by simp [hy2])
  have hl2 := hf.2.1
  rw [← e3]
  simp only [Pwl.pieceAt]
  congr 1
  omega

/-- item 6b: at the last breakpoint `__call__` returns the left limit -/
theorem Pwl.call_last {f : Pwl} (hf : f.WF) : f.evalL f.last = some (f.call f.last) := by
  rw [(Pwl.evalL_eq hf (Pwl.first_lt_last hf) (le_refl _)).1, Pwl.call_last_val hf]
  obtain ⟨e, h⟩ := Pwl.pieceAt_last_at hf
  rw [e, h]

theorem Pwl.idx_inside {f : Pwl} (hf : f.WF) {t : Q} (h0 : f.first < t) (h1 : t < f.last) :
    1 ≤ ssLeft f.x t ∧ ssRight f.x t < f.x.length := by
  obtain ⟨x0, x1, r, u0, us, v0, vs, hx, hy1, hy2⟩ := hf.shape
  unfold Pwl.first at h0; unfold Pwl.last at h1
  constructor
  · rw [hx] at h0 ⊢
    rw [ssLeft_cons, if_pos (by simpa using h0)]; omega
  · apply ssRight_lt_length
    refine ⟨lastD f.x 0, ?_, h1⟩
    rw [hx]; exact lastD_mem _ _ _

/-- item 6c: at an interior breakpoint `__call__` returns the mean of the two one-sided limits -/
theorem Pwl.call_breakpoint {f : Pwl} (hf : f.WF) {t : Q} (hm : t ∈ f.x)
    (h0 : f.first < t) (h1 : t < f.last) :
    ∃ l r, f.evalL t = some l ∧ f.evalR t = some r ∧ f.call t = (l + r) / 2 := by
  obtain ⟨hL, hLlt, _⟩ := Pwl.evalL_eq hf h0 h1.le
  obtain ⟨hR, _, _⟩ := Pwl.evalR_eq hf h0.le h1
  refine ⟨_, _, hL, hR, ?_⟩
  have hs := hf.2.2.1
  have e := ssRight_eq_ssLeft_succ_of_mem hs hm
  have hnth := nth_ssRight_of_mem hs hm
  obtain ⟨i1, _⟩ := Pwl.idx_inside hf h0 h1
  have hn0 : t ≠ f.x.headD 0 := ne_of_gt h0
  have hn1 : t ≠ lastD f.x 0 := ne_of_lt h1
  rw [e, Nat.add_sub_cancel] at hnth
  have hRv : (f.pieceAt (ssRight f.x t - 1)).at t = nth f.y1 (ssRight f.x t - 1) := by
    rw [e, Nat.add_sub_cancel]
    exact Piece.at_eq_yl (by simp only [Pwl.pieceAt]; exact hnth.symm)
  have hLv : (f.pieceAt (ssLeft f.x t - 1)).at t = nth f.y2 (ssRight f.x t - 2) := by
    rw [Piece.at_eq_yr (by
      simp only [Pwl.pieceAt]
      rw [show ssLeft f.x t - 1 + 1 = ssLeft f.x t by omega]; exact hnth.symm) hLlt]
    simp only [Pwl.pieceAt]
    congr 1
    omega
  rw [hRv, hLv]
  unfold Pwl.call
  dsimp only
  rw [if_neg hn0, if_neg hn1, if_pos (show f.x.contains t = true by simpa using hm), add_comm]

/-- item 6d: between breakpoints `__call__` interpolates in the piece containing `t` -/
theorem Pwl.call_inside {f : Pwl} (hf : f.WF) {t : Q} (hm : t ∉ f.x)
    (h0 : f.first ≤ t) (h1 : t ≤ f.last) :
    ∃ v, f.evalR t = some v ∧ f.call t = v := by
  obtain ⟨x0, x1, r, u0, us, v0, vs, hx, hy1, hy2⟩ := hf.shape
  have hn0 : t ≠ f.x.headD 0 := by
    intro e; apply hm; rw [e, hx]; simp
  have hn1 : t ≠ lastD f.x 0 := by
    intro e; apply hm; rw [e, hx]; exact lastD_mem _ _ _
  refine ⟨_, (Pwl.evalR_eq hf h0 (lt_of_le_of_ne h1 hn1)).1, ?_⟩
  unfold Pwl.call
  dsimp only
  rw [if_neg hn0, if_neg hn1, if_neg (show ¬ f.x.contains t = true by simpa using hm)]

example : exPwl.evalR exPwl.first = some (exPwl.call exPwl.first) := Pwl.call_first exPwl_WF
example : exPwl.evalL exPwl.last = some (exPwl.call exPwl.last) := Pwl.call_last exPwl_WF
example : (3 : Q) ∈ exPwl.x ∧ exPwl.first < 3 ∧ 3 < exPwl.last := by decide +kernel
example : (2 : Q) ∉ exPwl.x ∧ exPwl.first ≤ 2 ∧ 2 ≤ exPwl.last := by decide +kernel

/-- item 7: evaluating a one-element sequence gives the same as evaluating the single time -/
theorem Pwl.callSeq1_eq_call {f : Pwl} (hf : f.WF) {t : Q} (h0 : f.first ≤ t) (h1 : t ≤ f.last) :
    f.callSeq1 t = f.call t := by
  obtain ⟨x0, x1, r, u0, us, v0, vs, hx, hy1, hy2⟩ := hf.shape
  have hs := hf.2.2.1
  rcases eq_or_lt_of_le h0 with rfl | h0'
  · rw [Pwl.call_first_val]
    have : ssRight f.x f.first = 1 := by
      unfold Pwl.first; rw [hx] at hs ⊢; exact ssRight_first hs
    have hn : ¬ (1 = f.x.length) := by simp [hx]
    unfold Pwl.callSeq1
    dsimp only
    rw [this, if_neg (show ¬ (1 = 0) by omega), if_neg hn,
      if_neg (show ¬ (1 ≠ ssLeft f.x f.first ∧ 1 > 1 ∧ 1 < f.x.length) by omega),
      show 1 - 1 = 0 from rfl, Pwl.pieceAt_zero_at_first hf]
  rcases eq_or_lt_of_le h1 with rfl | h1'
  · rw [Pwl.call_last_val hf]
    have e1 : ssRight f.x f.last = f.x.length := ssRight_last hs
    obtain ⟨e2, e3⟩ := Pwl.pieceAt_last_at hf
    have hn : f.x.length ≠ 0 := by simp [hx]
    unfold Pwl.callSeq1
    dsimp only
    rw [e1, if_neg hn, if_pos rfl, e2, if_neg (by simp), e3]
  · obtain ⟨i1, i2⟩ := Pwl.idx_inside hf h0' h1'
    have hle := ssLeft_le_ssRight f.x t
    have hn0 : t ≠ f.x.headD 0 := ne_of_gt h0'
    have hn1 : t ≠ lastD f.x 0 := ne_of_lt h1'
    unfold Pwl.callSeq1 Pwl.call
    dsimp only
    rw [if_neg (by omega : ¬ ssRight f.x t = 0), if_neg (by omega : ¬ ssRight f.x t = f.x.length),
      if_neg hn0, if_neg hn1]
    by_cases hm : t ∈ f.x
    · have e := ssRight_eq_ssLeft_succ_of_mem hs hm
      rw [if_pos (show f.x.contains t = true by simpa using hm),
        if_pos (show ssRight f.x t ≠ ssLeft f.x t ∧ ssRight f.x t > 1 ∧ ssRight f.x t < f.x.length
          by omega)]
    · have e := ssRight_eq_ssLeft_of_not_mem hm
      rw [if_neg (show ¬ f.x.contains t = true by simpa using hm),
        if_neg (show ¬ (ssRight f.x t ≠ ssLeft f.x t ∧ ssRight f.x t > 1 ∧
          ssRight f.x t < f.x.length) by omega)]

example : exPwl.callSeq1 3 = exPwl.call 3 :=
  Pwl.callSeq1_eq_call exPwl_WF (by decide +kernel) (by decide +kernel)

/-! ## piecewise linear: plottable data (item 8) -/

theorem Pwl.pieces_length {f : Pwl} (hf : f.WF) : f.pieces.length = f.y1.length := by
  have h1 := hf.1
  have h2 := hf.2.1
  simp only [Pwl.pieces, List.length_map, List.length_zip, List.length_tail]
  omega

/-- piece `k` is `(x[k], x[k+1], y1[k], y2[k])` -/
theorem Pwl.pieces_getElem {f : Pwl} (hf : f.WF) (k : Nat) (hk : k < f.pieces.length) :
    f.pieces[k] = f.pieceAt k := by
  have hl1 := hf.1
  have hl2 := hf.2.1
  have hk' := hk
  rw [Pwl.pieces_length hf] at hk'
  have h1 : k < f.x.length := by omega
  have h2 : k + 1 < f.x.length := by omega
  have h3 : k < f.y2.length := by omega
  simp only [Pwl.pieces, List.getElem_map, List.getElem_zip, List.getElem_tail, Pwl.pieceAt, nth]
  simp [List.getD_eq_getElem?_getD, h1, h2, h3, hk']

/-- item 8: the plottable arrays are `[x0,x1, x1,x2, …]` and `[y1_0,y2_0, y1_1,y2_1, …]`: entries `2k`,
    `2k+1` are the end points of piece `k` and its values at the two ends -/
theorem Pwl.plottable_spec {f : Pwl} (hf : f.WF) :
    f.plottable = (f.pieces.flatMap (fun p => [p.xl, p.xr]), f.pieces.flatMap (fun p => [p.yl, p.yr])) ∧
    f.plottable.1.length = 2 * f.y1.length ∧ f.plottable.2.length = 2 * f.y1.length ∧
    ∀ k, k < f.y1.length →
      f.plottable.1[2 * k]? = some (nth f.x k) ∧ f.plottable.1[2 * k + 1]? = some (nth f.x (k + 1)) ∧
      f.plottable.2[2 * k]? = some (nth f.y1 k) ∧ f.plottable.2[2 * k + 1]? = some (nth f.y2 k) := by
  refine ⟨rfl, ?_, ?_, ?_⟩
  · simp [Pwl.plottable, List.length_flatMap, Pwl.pieces_length hf, mul_comm]
  · simp [Pwl.plottable, List.length_flatMap, Pwl.pieces_length hf, mul_comm]
  · intro k hk
    rw [← Pwl.pieces_length hf] at hk
    have hp := Pwl.pieces_getElem hf k hk
    have hx := flatMap_pair_getElem? (fun p : Piece => p.xl) (fun p => p.xr) f.pieces k
    have hy := flatMap_pair_getElem? (fun p : Piece => p.yl) (fun p => p.yr) f.pieces k
    simp only [Pwl.plottable]
    rw [hx.1, hx.2, hy.1, hy.2, List.getElem?_eq_getElem hk, hp]
    simp [Pwl.pieceAt]

example : exPwl.plottable = ([0, 1, 1, 3, 3, 4], [2, 3, 5, 1, -1, 0]) := by decide +kernel

end PySpike
