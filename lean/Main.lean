/-
  Main.lean — line-protocol driver for the executable model (imports Model only, no Mathlib).
  One request per line:   op | field | field …      (fields: space separated rationals `p/q`)
  One answer per line:    field | field …           or `reject` / `bad-op`
-/
import PySpikeVerif.Model.Api
import PySpikeVerif.Model.Pyx
import PySpikeVerif.Model.TextIO
import PySpikeVerif.Model.Extra
import PySpikeVerif.Spec.IsiList
import PySpikeVerif.Spec.Sync
import PySpikeVerif.Spec.Spike
open PySpike

def parseQ (s : String) : Option Q :=
  match s.splitOn "/" with
  | [n] => n.toInt?.map (fun i => (i : Q))
  | [n, d] => do
    let a ← n.toInt?
    let b ← d.toNat?
    if b = 0 then none else some (mkRat a b)
  | _ => none

def parseList (s : String) : Option (List Q) :=
  (s.splitOn " ").filter (· ≠ "") |>.mapM parseQ

def showQ (q : Q) : String :=
  if q.den = 1 then toString q.num else s!"{q.num}/{q.den}"

def showL (l : List Q) : String := " ".intercalate (l.map showQ)

def showFields (fs : List (List Q)) : String := " | ".intercalate (fs.map showL)

def showOpt (o : Option (List (List Q))) : String :=
  match o with
  | some fs => showFields fs
  | none => "reject"

def unzip3 (l : List (Q × Q × Q)) : List (List Q) :=
  [l.map (·.1), l.map (·.2.1), l.map (·.2.2)]

def mkDisc (x y mp : List Q) : Disc := ⟨x.zip (y.zip mp)⟩

def pairs (l : List Q) : List (Q × Q) :=
  match l with
  | a :: b :: r => (a, b) :: pairs r
  | _ => []

def toBool (q : Q) : Bool := q ≠ 0


def mkKw (p : List Q) : Option Kw :=
  match p with
  | mrts :: ri :: mt :: rc :: ivf :: a :: b :: _ =>
    some { mrts := mrts, ri := toBool ri, maxTau := mt, recon := toBool rc,
           interval := if toBool ivf then some (a, b) else none }
  | _ => none

def mkIdx (p : List Q) : Option (List Nat) :=
  match p with
  | [] => none
  | f :: r => if f = 0 then none else some (r.map fun q => q.num.toNat)

def mkTrain (p : List Q) : Option Train :=
  match p with
  | ts :: te :: sp => some ⟨sp, ts, te⟩
  | _ => none

def showOptQ (o : Option Q) : String := match o with | some v => showQ v | none => "reject"
def showMat (o : Option (List (List Q))) : String := showOpt o
def showTrains (L : List Train) : String :=
  showFields (L.map fun t => t.ts :: t.te :: t.spikes)

/-- API-level operations: `op | kw… extra… | idxflag idx… | ts te spikes… | ts te spikes… …` -/
def handleApi (op : String) (f : List (List Q)) : String :=
  match f with
  | p :: ix :: ts =>
    match mkKw p, ts.mapM mkTrain with
    | some kw, some L =>
      let idx := mkIdx ix
      let extra := p.drop 7
      let n := L.length
      let idxOk := match idx with | none => true | some l => idxValid l n
      if !idxOk then "reject" else
      -- the order / directionality scalars raise NotImplementedError when `interval` is given
      if kw.interval.isSome && (op == "order_bi" || op == "order_multi" || op == "dir_values" || op == "dir_bi" || op == "dir_matrix")
      then "reject" else
      match op with
      | "reconcile" => showTrains (reconcile L)
      | "isi_profile_bi" => let r := isiProfileBi kw (tr L 0) (tr L 1); showFields [r.x, r.y]
      | "isi_profile_multi" => let r := isiProfileMulti kw idx L; showFields [r.x, r.y]
      | "isi_distance_bi" => showOptQ (isiDistanceBi kw (tr L 0) (tr L 1))
      | "isi_distance_multi" => showOptQ (isiDistanceMulti kw idx L)
      | "isi_distance_matrix" => showMat (isiDistanceMatrix kw idx L)
      | "spike_profile_bi" => let r := spikeProfileBi kw (tr L 0) (tr L 1); showFields [r.x, r.y1, r.y2]
      | "spike_profile_multi" => let r := spikeProfileMulti kw idx L; showFields [r.x, r.y1, r.y2]
      | "spike_distance_bi" => showOptQ (spikeDistanceBi kw (tr L 0) (tr L 1))
      | "spike_distance_multi" => showOptQ (spikeDistanceMulti kw idx L)
      | "spike_distance_matrix" => showMat (spikeDistanceMatrix kw idx L)
      | "sync_profile_bi" => showFields (unzip3 (syncProfileBi kw (tr L 0) (tr L 1)).e)
      | "sync_profile_multi" => showFields (unzip3 (syncProfileMulti kw idx L).e)
      | "spike_sync_bi" => showOptQ (spikeSyncBi kw (tr L 0) (tr L 1))
      | "spike_sync_multi" => showOptQ (spikeSyncMulti kw idx L)
      | "spike_sync_matrix" => showMat (spikeSyncMatrix kw idx L)
      | "filter_by_sync" =>
        let r := filterBySync kw (extra.headD 0) L
        showTrains r.1 ++ " || " ++ showTrains r.2
      | "order_profile_bi" => showFields (unzip3 (orderProfileBi kw (tr L 0) (tr L 1)).e)
      | "order_profile_multi" => showFields (unzip3 (orderProfileMulti kw idx L).e)
      | "order_bi" => showQ (spikeTrainOrderBi kw (toBool (extra.headD 1)) (tr L 0) (tr L 1))
      | "order_multi" => showQ (spikeTrainOrderMulti kw idx L)
      | "dir_values" => showFields (dirValues kw idx L)
      | "dir_bi" => showQ (spikeDirectionality kw (toBool (extra.headD 1)) (tr L 0) (tr L 1))
      | "dir_matrix" => showFields (spikeDirectionalityMatrix kw (toBool (extra.headD 1)) idx L)
      | "isi_lengths" => let t := tr L 0; showFields [isiLengths t.spikes t.ts t.te]
      | "default_thresh_sq" => showQ (defaultThreshSq L)
      | "auto_thresh_sq" => showQ (defaultThreshSq (prep kw L))
      | "merge" => showTrains [mergeTrains L]
      | "psth" => let r := psthCounts L (extra.headD 1).num.toNat; showFields [r.1, r.2]
      | "poisson" => let t := tr L 0; showFields [poissonFrom t.ts t.te t.spikes]
      | "time_series" =>
        showTrains (L.map fun t => timeSeriesTrain t.spikes t.ts t.te)
      | _ => "bad-op"
    | _, _ => "bad-op"
  | _ => "bad-op"

def chunkPwc : List (List Q) → List Pwc
  | x :: y :: r => ⟨x, y⟩ :: chunkPwc r
  | _ => []

def chunkPwl : List (List Q) → List Pwl
  | x :: y1 :: y2 :: r => ⟨x, y1, y2⟩ :: chunkPwl r
  | _ => []

def handle (op : String) (f : List (List Q)) : String :=
  if op == "avg_pwc" then
    match averagePwc (chunkPwc f) with
    | some r => showFields [r.x, r.y]
    | none => "reject"
  else if op == "avg_pwl" then
    match averagePwl (chunkPwl f) with
    | some r => showFields [r.x, r.y1, r.y2]
    | none => "reject"
  else
  match op, f with
  | "isi_profile", [s1, s2, [ts, te, m]] =>
    if s1.isEmpty ∨ s2.isEmpty then "reject" else
    let r := isiProfile s1 s2 ts te m; showFields [r.1, r.2]
  | "spike_profile", [s1, s2, [ts, te, m, ri]] =>
    if s1.isEmpty ∨ s2.isEmpty then "reject" else
    let r := spikeProfile s1 s2 ts te m (toBool ri); showFields [r.1, r.2.1, r.2.2]
  | "get_tau", [s1, s2, [i, j, mt, m]] =>
    showFields [[getTauIdx s1 s2 i.num j.num mt m]]
  | "coinc_profile", [s1, s2, [ts, te, mt, m]] => showFields (unzip3 (coincProfile s1 s2 ts te mt m))
  | "order_profile", [s1, s2, [ts, te, mt, m]] => showFields (unzip3 (orderProfile s1 s2 ts te mt m))
  | "coinc_single", [s1, s2, [ts, te, mt, m]] => showFields [coincSingle s1 s2 ts te mt m]
  | "dir_profile", [s1, s2, [ts, te, mt, m]] =>
    let r := dirProfile s1 s2 ts te mt m; showFields [r.1, r.2]
  | "add_pwc", [x1, y1, x2, y2] => let r := Pwc.add ⟨x1, y1⟩ ⟨x2, y2⟩; showFields [r.x, r.y]
  | "add_pwl", [x1, y11, y12, x2, y21, y22] =>
    let r := Pwl.add ⟨x1, y11, y12⟩ ⟨x2, y21, y22⟩; showFields [r.x, r.y1, r.y2]
  | "add_disc", [x1, y1, m1, x2, y2, m2] =>
    showFields (unzip3 (Disc.add (mkDisc x1 y1 m1) (mkDisc x2 y2 m2)).e)
  | "pwc_integral_all", [x, y] => showFields [[(Pwc.mk x y).integralAll]]
  | "pwc_integral", [x, y, [a, b]] => showOpt (((Pwc.mk x y).integralCode a b).map fun v => [[v]])
  | "pwc_avrg_all", [x, y] => showFields [[(Pwc.mk x y).avrgAll]]
  | "pwc_avrg", [x, y, [a, b]] => showOpt (((Pwc.mk x y).integralCode a b).map fun v => [[v / (b - a)]])
  | "pwc_avrg_list", [x, y, iv] => showOpt (((Pwc.mk x y).avrgListCode (pairs iv)).map fun v => [[v]])
  | "pwc_call", [x, y, ts] => showFields [ts.map (Pwc.mk x y).call]
  | "pwc_call_seq", [x, y, ts] => showFields [ts.map (Pwc.mk x y).callSeq1]
  | "pwc_plot", [x, y] => let r := (Pwc.mk x y).plottable; showFields [r.1, r.2]
  | "pwl_integral_all", [x, y1, y2] => showFields [[(Pwl.mk x y1 y2).integralAll]]
  | "pwl_integral", [x, y1, y2, [a, b]] => showOpt (((Pwl.mk x y1 y2).integralCode a b).map fun v => [[v]])
  | "pwl_avrg_all", [x, y1, y2] => showFields [[(Pwl.mk x y1 y2).avrgAll]]
  | "pwl_avrg", [x, y1, y2, [a, b]] => showOpt (((Pwl.mk x y1 y2).integralCode a b).map fun v => [[v / (b - a)]])
  | "pwl_avrg_list", [x, y1, y2, iv] =>
    showOpt (((Pwl.mk x y1 y2).avrgListCode (pairs iv)).map fun v => [[v]])
  | "pwl_call", [x, y1, y2, ts] => showFields [ts.map (Pwl.mk x y1 y2).call]
  | "pwl_call_seq", [x, y1, y2, ts] => showFields [ts.map (Pwl.mk x y1 y2).callSeq1]
  | "pwl_plot", [x, y1, y2] => let r := (Pwl.mk x y1 y2).plottable; showFields [r.1, r.2]
  | "disc_integral_all", [x, y, mp] => let r := (mkDisc x y mp).integralAll; showFields [[r.1, r.2]]
  | "disc_integral", [x, y, mp, [a, b]] =>
    showOpt (((mkDisc x y mp).integral a b).map fun r => [[r.1, r.2]])
  | "disc_integral_list", [x, y, mp, iv] =>
    showOpt (((mkDisc x y mp).integralList (pairs iv)).map fun r => [[r.1, r.2]])
  | "disc_avrg_all", [x, y, mp] => showFields [[(mkDisc x y mp).avrgAll]]
  | "disc_avrg", [x, y, mp, [a, b]] => showOpt (((mkDisc x y mp).avrg a b).map fun v => [[v]])
  | "disc_plot", [x, y, mp, [k]] =>
    -- `get_plottable_data` returns the event times unchanged and the (smoothed) values
    showFields [(mkDisc x y mp).e.map (·.1), (mkDisc x y mp).plottable k.num.toNat]
  -- single-pass routines: model answer = average / integral of the model profile
  | "isi_dist_k", [s1, s2, [ts, te, m]] =>
    if s1.isEmpty ∨ s2.isEmpty then "reject" else
    let r := isiProfile s1 s2 ts te m; showFields [[(Pwc.mk r.1 r.2).avrgAll]]
  | "spike_dist_k", [s1, s2, [ts, te, m, ri]] =>
    if s1.isEmpty ∨ s2.isEmpty then "reject" else
    let r := spikeProfile s1 s2 ts te m (toBool ri); showFields [[(Pwl.mk r.1 r.2.1 r.2.2).avrgAll]]
  | "coinc_value_k", [s1, s2, [ts, te, mt, m]] =>
    let r := (Disc.mk (coincProfile s1 s2 ts te mt m)).integralAll; showFields [[r.1, r.2]]
  | "order_value_k", [s1, s2, [ts, te, mt, m]] =>
    let r := (Disc.mk (orderProfile s1 s2 ts te mt m)).integralAll; showFields [[r.1, r.2]]
  | "dir_value_k", [s1, s2, [ts, te, mt, m]] => showFields [[qsum (dirProfile s1 s2 ts te mt m).1]]
  -- the Cython-specific models (Model/Pyx.lean)
  | "pyx_isi_profile", [s1, s2, [ts, te, m]] =>
    if s1.isEmpty ∨ s2.isEmpty then "reject" else
    let r := isiProfilePyx s1 s2 ts te m; showFields [r.1, r.2]
  | "pyx_isi_dist", [s1, s2, [ts, te, m]] =>
    if s1.isEmpty ∨ s2.isEmpty then "reject" else showFields [[isiDistancePyx s1 s2 ts te m]]
  | "pyx_spike_profile", [s1, s2, [ts, te, m, ri]] =>
    if s1.isEmpty ∨ s2.isEmpty then "reject" else
    let r := spikeProfilePyx s1 s2 ts te m (toBool ri); showFields [r.1, r.2.1, r.2.2]
  | "pyx_spike_dist", [s1, s2, [ts, te, m, ri]] =>
    if s1.isEmpty ∨ s2.isEmpty then "reject" else showFields [[spikeDistancePyx s1 s2 ts te m (toBool ri)]]
  | "pyx_coinc_value", [s1, s2, [ts, te, mt, m]] => let r := coincValuePyx s1 s2 ts te mt m; showFields [[r.1, r.2]]
  | "pyx_order_value", [s1, s2, [ts, te, mt, m]] => let r := orderValuePyx s1 s2 ts te mt m; showFields [[r.1, r.2]]
  | "pyx_dir_value", [s1, s2, [ts, te, mt, m]] => showFields [[dirValuePyx s1 s2 ts te mt m]]
  -- cursor-free specifications (Spec/Sync.lean), for validating the spec against the model
  | "round_sci", [[p], xs] => showFields [xs.map (roundSci p.num.toNat)]
  | "save_load", ([p, ign, ncom] :: trains) =>
    -- `ncom` comment lines are inserted (before the first and after every second line)
    let ls := saveLines p.num.toNat trains
    let withC := if ncom = 0 then ls else Line.comment :: ls.flatMap (fun l => [l, Line.comment])
    let r := loadLines (toBool ign) withC
    showFields ([(r.length : Q)] :: r)
  | "mul_pwc", [x, y, [c]] => let r := (Pwc.mk x y).mulScalar c; showFields [r.x, r.y]
  | "mul_pwl", [x, y1, y2, [c]] => let r := (Pwl.mk x y1 y2).mulScalar c; showFields [r.x, r.y1, r.y2]
  | "mul_disc", [x, y, mp, [c]] => showFields (unzip3 ((mkDisc x y mp).mulScalar c).e)
  | "spec_isi_lengths", [s, [ts, te]] => showFields [isiListSpec s ts te]
  | "spec_spike", [s1, s2, [ts, te, m, ri]] =>
    if s1.isEmpty ∨ s2.isEmpty then "reject" else
    let xs := (isiProfile s1 s2 ts te 0).1
    let r := spikeSpecProfile s1 s2 ts te m (toBool ri) xs; showFields [xs, r.1, r.2]
  | "spec_coinc", [s1, s2, [ts, te, mt, m]] =>
    showFields (unzip3 (frameProfile ts te (scanSpec 1 1 2 s1 s2 (trueMax ts te mt) m)))
  | "spec_order", [s1, s2, [ts, te, mt, m]] =>
    showFields (unzip3 (frameProfile ts te (scanSpec (-1) 1 0 s1 s2 (trueMax ts te mt) m)))
  | "spec_single", [s1, s2, [ts, te, mt, m]] => showFields [singleSpec s1 s2 (trueMax ts te mt) m]
  | "spec_dir", [s1, s2, [ts, te, mt, m]] =>
    showFields [dirSpec1 s1 s2 (trueMax ts te mt) m, dirSpec2 s1 s2 (trueMax ts te mt) m]
  | _, _ => handleApi op f

partial def loop (h : IO.FS.Stream) (out : IO.FS.Stream) : IO Unit := do
  let line ← h.getLine
  if line.isEmpty then return ()
  let line := line.trimAscii.toString
  if line.isEmpty then
    out.putStrLn ""
  else
    let parts := (line.splitOn "|").map (fun s => s.trimAscii.toString)
    match parts with
    | [] => out.putStrLn "bad-op"
    | op :: fs =>
      match fs.mapM parseList with
      | none => out.putStrLn "bad-op"
      | some f => out.putStrLn (handle op f)
  loop h out

def main : IO Unit := do
  let stdin ← IO.getStdin
  let stdout ← IO.getStdout
  loop stdin stdout
