/-
  GenMain.lean — line-protocol driver for the GENERATED model (`Gen/Backend.lean`), same request
  format as Main.lean (`op | field | field …`, rationals `p/q`). Run interpreted:
      lake env lean --run GenMain.lean            (committed text)
      LEAN_PATH=<scratch>:… lean --run GenMain.lean   (text regenerated from a changed tree)
  It imports nothing but the generated file, so the answers are those of the translated source.
-/
import PySpikeVerif.Gen.Backend
open PySpike.Gen

def parseQ (s : String) : Option Rat :=
  match s.splitOn "/" with
  | [n] => n.toInt?.map (fun i => (i : Rat))
  | [n, d] => do
    let a ← n.toInt?
    let b ← d.toNat?
    if b = 0 then none else some (mkRat a b)
  | _ => none

def parseList (s : String) : Option (List Rat) :=
  (s.splitOn " ").filter (· ≠ "") |>.mapM parseQ

def showQ (q : Rat) : String :=
  if q.den = 1 then toString q.num else s!"{q.num}/{q.den}"

def showL (l : List Rat) : String := " ".intercalate (l.map showQ)

def showFields (fs : List (List Rat)) : String := " | ".intercalate (fs.map showL)

def show2 (o : Option (List Rat × List Rat)) : String :=
  match o with | some (a, b) => showFields [a, b] | none => "reject"
def show3 (o : Option (List Rat × List Rat × List Rat)) : String :=
  match o with | some (a, b, c) => showFields [a, b, c] | none => "reject"

def handle (op : String) (f : List (List Rat)) : String :=
  match op, f with
  | "isi_profile", [s1, s2, [ts, te, m]] =>
    show2 (isi_distance_python (s1.length + s2.length + 8) s1 s2 ts te m)
  | "spike_profile", [s1, s2, [ts, te, m, ri]] =>
    show3 (spike_distance_python (s1.length + s2.length + 8) s1 s2 ts te m (ri != 0))
  | "get_tau", [s1, s2, [i, j, mt, m]] =>
    match get_tau 8 s1 s2 i.num j.num mt m with | some v => showQ v | none => "reject"
  | "coinc_profile", [s1, s2, [ts, te, mt, m]] =>
    show3 (coincidence_python (s1.length + s2.length + 8) s1 s2 ts te mt m)
  | "order_profile", [s1, s2, [ts, te, mt, m]] =>
    show3 (spike_train_order_profile_python (s1.length + s2.length + 8) s1 s2 ts te mt m)
  | "coinc_single", [s1, s2, [ts, te, mt, m]] =>
    match coincidence_single_python (s1.length + s2.length + 8) s1 s2 ts te mt m with
    | some c => showFields [c] | none => "reject"
  | "dir_profile", [s1, s2, [ts, te, mt, m]] =>
    show2 (spike_directionality_profile_python (s1.length + s2.length + 8) s1 s2 ts te mt m)
  | "add_pwc", [x1, y1, x2, y2] =>
    show2 (add_piece_wise_const_python (x1.length + x2.length + 8) x1 y1 x2 y2)
  | "add_pwl", [x1, y11, y12, x2, y21, y22] =>
    show3 (add_piece_wise_lin_python (x1.length + x2.length + 8) x1 y11 y12 x2 y21 y22)
  | "add_disc", [x1, y1, m1, x2, y2, m2] =>
    show3 (add_discrete_function_python (x1.length + x2.length + 8) x1 y1 m1 x2 y2 m2)
  | _, _ => "bad-op"

partial def loop (h : IO.FS.Stream) (out : IO.FS.Stream) : IO Unit := do
  let line ← h.getLine
  if line.isEmpty then return ()
  let line := line.trimAscii.toString
  if line.isEmpty then
    out.putStrLn ""
  else
    let parts := (line.splitOn "|").map (fun s => s.trimAscii.toString)
    match parts with
    | [] => out.putStrLn "bad-op"
    | op :: fs =>
      match fs.mapM parseList with
      | none => out.putStrLn "bad-op"
      | some f => out.putStrLn (handle op f)
  loop h out

def main : IO Unit := do
  let stdin ← IO.getStdin
  let stdout ← IO.getStdout
  loop stdin stdout
