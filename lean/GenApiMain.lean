/-
  GenApiMain.lean — line-protocol driver for the model GENERATED from pyspike/spikes.py (`Gen/Api.lean`), same request
  format as Main.lean (`op | kw… | idxflag idx… | ts te spikes… | ts te spikes… …`, rationals `p/q`). Run interpreted:
      lake env lean --run GenApiMain.lean
  It imports nothing but the generated file, so the answers are those of the translated source.
-/
import PySpikeVerif.Gen.Api
import PySpikeVerif.Gen.ApiThresh
import PySpikeVerif.Gen.ApiTrain
open PySpike.Gen

def parseQ (s : String) : Option Rat :=
  match s.splitOn "/" with
  | [n] => n.toInt?.map (fun i => (i : Rat))
  | [n, d] => do
    let a ← n.toInt?
    let b ← d.toNat?
    if b = 0 then none else some (mkRat a b)
  | _ => none

def parseList (s : String) : Option (List Rat) :=
  (s.splitOn " ").filter (· ≠ "") |>.mapM parseQ

def showQ (q : Rat) : String :=
  if q.den = 1 then toString q.num else s!"{q.num}/{q.den}"
def showL (l : List Rat) : String := " ".intercalate (l.map showQ)
def showFields (fs : List (List Rat)) : String := " | ".intercalate (fs.map showL)

def mkT (p : List Rat) : Option PyTrain :=
  match p with
  | ts :: te :: sp => some ⟨sp, ts, te⟩
  | _ => none
def showTrains (L : List PyTrain) : String := showFields (L.map fun t => t.t_start :: t.t_end :: t.spikes)

def handle (op : String) (f : List (List Rat)) : String :=
  match f with
  | _ :: _ :: ts =>
    match ts.mapM mkT with
    | none => "bad-op"
    | some L =>
      match op with
      | "reconcile" => match PySpike.GenApi.reconcile_spike_trains L with | some R => showTrains R | none => "reject"
      | "reconcile_bi" =>
        match L with
        | [a, b] => match PySpike.GenApi.reconcile_spike_trains_bi a b with | some (x, y) => showTrains [x, y] | none => "reject"
        | _ => "bad-op"
      | "default_thresh_sq" => match PySpike.GenApi.default_thresh_sq 4 L with | some v => showQ v | none => "reject"
      | "train_nonempty" => match L.mapM PySpike.GenApi.SpikeTrain.get_spikes_non_empty with | some ls => showFields ls | none => "reject"
      | "train_copy" => match L.mapM PySpike.GenApi.SpikeTrain.copy with | some R => showTrains R | none => "reject"
      | "train_sort" => match L.mapM PySpike.GenApi.SpikeTrain.sort with | some R => showTrains R | none => "reject"
      | "merge" => match PySpike.GenApi.merge_spike_trains L with | some t => showTrains [t] | none => "reject"
      | _ => "bad-op"
  | _ => "bad-op"

partial def loop (h : IO.FS.Stream) (out : IO.FS.Stream) : IO Unit := do
  let line ← h.getLine
  if line.isEmpty then return ()
  let line := line.trimAscii.toString
  if line.isEmpty then
    out.putStrLn ""
  else
    let parts := (line.splitOn "|").map (fun s => s.trimAscii.toString)
    match parts with
    | [] => out.putStrLn "bad-op"
    | op :: fs =>
      match fs.mapM parseList with
      | none => out.putStrLn "bad-op"
      | some f => out.putStrLn (handle op f)
  loop h out

def main : IO Unit := do
  let stdin ← IO.getStdin
  let stdout ← IO.getStdout
  loop stdin stdout
