/-
  GenPyxMain.lean — line-protocol driver for the model GENERATED from the Cython sources (`Gen/BackendPyx.lean`), same request
  format as Main.lean (`op | field | field …`, rationals `p/q`). Run interpreted:
      lake env lean --run GenPyxMain.lean            (committed text)
      LEAN_PATH=<scratch>:… lean --run GenPyxMain.lean   (text regenerated from a changed tree)
  It imports nothing but the generated file, so the answers are those of the translated source.
-/
import PySpikeVerif.Gen.BackendPyx
open PySpike.Gen PySpike.GenPyx

def parseQ (s : String) : Option Rat :=
  match s.splitOn "/" with
  | [n] => n.toInt?.map (fun i => (i : Rat))
  | [n, d] => do
    let a ← n.toInt?
    let b ← d.toNat?
    if b = 0 then none else some (mkRat a b)
  | _ => none

def parseList (s : String) : Option (List Rat) :=
  (s.splitOn " ").filter (· ≠ "") |>.mapM parseQ

def showQ (q : Rat) : String :=
  if q.den = 1 then toString q.num else s!"{q.num}/{q.den}"

def showL (l : List Rat) : String := " ".intercalate (l.map showQ)

def showFields (fs : List (List Rat)) : String := " | ".intercalate (fs.map showL)

def show2 (o : Option (List Rat × List Rat)) : String :=
  match o with | some (a, b) => showFields [a, b] | none => "reject"
def show3 (o : Option (List Rat × List Rat × List Rat)) : String :=
  match o with | some (a, b, c) => showFields [a, b, c] | none => "reject"

def qi (o : Option (Int × Int)) : String :=
  match o with | some (a, b) => showFields [[(a : Rat), (b : Rat)]] | none => "reject"

def handle (op : String) (f : List (List Rat)) : String :=
  match op, f with
  | "pyx_isi_profile", [s1, s2, [ts, te, m]] =>
    show2 (cython_profiles.isi_profile_cython (s1.length + s2.length + 8) s1 s2 ts te m)
  | "pyx_isi_dist", [s1, s2, [ts, te, m]] =>
    match cython_distances.isi_distance_cython (s1.length + s2.length + 8) s1 s2 ts te m with
    | some v => showQ v | none => "reject"
  | "pyx_spike_profile", [s1, s2, [ts, te, m, ri]] =>
    show3 (cython_profiles.spike_profile_cython (s1.length + s2.length + 8) s1 s2 ts te m (if ri != 0 then 1 else 0))
  | "pyx_spike_dist", [s1, s2, [ts, te, m, ri]] =>
    match cython_distances.spike_distance_cython (s1.length + s2.length + 8) s1 s2 ts te m (if ri != 0 then 1 else 0) with
    | some v => showQ v | none => "reject"
  | "get_tau", [s1, s2, [i, j, mt, m]] =>
    match cython_get_tau.get_tau 8 s1 s2 i.num j.num mt m with | some v => showQ v | none => "reject"
  | "coinc_profile", [s1, s2, [ts, te, mt, m]] =>
    show3 (cython_profiles.coincidence_profile_cython (s1.length + s2.length + 8) s1 s2 ts te mt m)
  | "coinc_single", [s1, s2, [ts, te, mt, m]] =>
    match cython_profiles.coincidence_single_profile_cython (s1.length + s2.length + 8) s1 s2 ts te mt m with
    | some c => showFields [c] | none => "reject"
  | "pyx_coinc_value", [s1, s2, [ts, te, mt, m]] =>
    match cython_distances.coincidence_value_cython (s1.length + s2.length + 8) s1 s2 ts te mt m with
    | some (a, b) => showFields [[a, b]] | none => "reject"
  | "order_profile", [s1, s2, [ts, te, mt, m]] =>
    show3 (cython_directionality.spike_train_order_profile_cython (s1.length + s2.length + 8) s1 s2 ts te mt m)
  | "pyx_order_value", [s1, s2, [ts, te, mt, m]] =>
    qi (cython_directionality.spike_train_order_cython (s1.length + s2.length + 8) s1 s2 ts te mt m)
  | "dir_profile", [s1, s2, [ts, te, mt, m]] =>
    show2 (cython_directionality.spike_directionality_profiles_cython (s1.length + s2.length + 8) s1 s2 ts te mt m)
  | "pyx_dir_value", [s1, s2, [ts, te, mt, m]] =>
    match cython_directionality.spike_directionality_cython (s1.length + s2.length + 8) s1 s2 ts te mt m with
    | some d => showFields [[(d : Rat)]] | none => "reject"
  | "add_pwc", [x1, y1, x2, y2] =>
    show2 (cython_add.add_piece_wise_const_cython (x1.length + x2.length + 8) x1 y1 x2 y2)
  | "add_pwl", [x1, y11, y12, x2, y21, y22] =>
    show3 (cython_add.add_piece_wise_lin_cython (x1.length + x2.length + 8) x1 y11 y12 x2 y21 y22)
  | "add_disc", [x1, y1, m1, x2, y2, m2] =>
    show3 (cython_add.add_discrete_function_cython (x1.length + x2.length + 8) x1 y1 m1 x2 y2 m2)
  | _, _ => "bad-op"

partial def loop (h : IO.FS.Stream) (out : IO.FS.Stream) : IO Unit := do
  let line ← h.getLine
  if line.isEmpty then return ()
  let line := line.trimAscii.toString
  if line.isEmpty then
    out.putStrLn ""
  else
    let parts := (line.splitOn "|").map (fun s => s.trimAscii.toString)
    match parts with
    | [] => out.putStrLn "bad-op"
    | op :: fs =>
      match fs.mapM parseList with
      | none => out.putStrLn "bad-op"
      | some f => out.putStrLn (handle op f)
  loop h out

def main : IO Unit := do
  let stdin ← IO.getStdin
  let stdout ← IO.getStdout
  loop stdin stdout
