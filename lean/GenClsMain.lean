/-
  GenClsMain.lean — line-protocol driver for the model GENERATED from the function classes (`Gen/Classes.lean`), same request
  format as Main.lean (`op | field | field …`, rationals `p/q`). Run interpreted:
      lake env lean --run GenClsMain.lean            (committed text)
      LEAN_PATH=<scratch>:… lean --run GenClsMain.lean   (text regenerated from a changed tree)
  It imports nothing but the generated file, so the answers are those of the translated source.
-/
import PySpikeVerif.Gen.Classes
import PySpikeVerif.Gen.Classes2
import PySpikeVerif.Gen.Classes3
import PySpikeVerif.Gen.IsiLengths
open PySpike.Gen PySpike.GenCls

def parseQ (s : String) : Option Rat :=
  match s.splitOn "/" with
  | [n] => n.toInt?.map (fun i => (i : Rat))
  | [n, d] => do
    let a ← n.toInt?
    let b ← d.toNat?
    if b = 0 then none else some (mkRat a b)
  | _ => none

def parseList (s : String) : Option (List Rat) :=
  (s.splitOn " ").filter (· ≠ "") |>.mapM parseQ

def showQ (q : Rat) : String :=
  if q.den = 1 then toString q.num else s!"{q.num}/{q.den}"

def showL (l : List Rat) : String := " ".intercalate (l.map showQ)

def showFields (fs : List (List Rat)) : String := " | ".intercalate (fs.map showL)

def show2 (o : Option (List Rat × List Rat)) : String :=
  match o with | some (a, b) => showFields [a, b] | none => "reject"
def show3 (o : Option (List Rat × List Rat × List Rat)) : String :=
  match o with | some (a, b, c) => showFields [a, b, c] | none => "reject"

def evens : List Rat → List Rat
  | a :: _ :: r => a :: evens r
  | _ => []
def odds : List Rat → List Rat
  | _ :: b :: r => b :: odds r
  | _ => []
def show1 (o : Option Rat) : String := match o with | some v => showQ v | none => "reject"
def showMany (l : List (Option Rat)) : String :=
  match l.mapM id with | some vs => showFields [vs] | none => "reject"

def handle (op : String) (f : List (List Rat)) : String :=
  match op, f with
  | "pwc_integral_all", [x, y] => show1 (pwc_integral_all 4 x y)
  | "pwc_integral", [x, y, [a, b]] => show1 (pwc_integral 4 x y a b)
  | "pwc_avrg_all", [x, y] => show1 (pwc_avrg_all 4 x y)
  | "pwc_avrg", [x, y, [a, b]] => show1 (pwc_avrg 4 x y a b)
  | "pwc_call", [x, y, ts] => showMany (ts.map fun t => pwc_call 4 x y t)
  | "pwl_integral_all", [x, y1, y2] => show1 (pwl_integral_all 4 x y1 y2)
  | "pwl_integral", [x, y1, y2, [a, b]] => show1 (pwl_integral 4 x y1 y2 a b)
  | "pwl_avrg_all", [x, y1, y2] => show1 (pwl_avrg_all 4 x y1 y2)
  | "pwl_avrg", [x, y1, y2, [a, b]] => show1 (pwl_avrg 4 x y1 y2 a b)
  | "pwl_call", [x, y1, y2, ts] => showMany (ts.map fun t => pwl_call 4 x y1 y2 t)
  | "disc_integral_all", [x, y, mp] =>
    match disc_integral_all 4 x y mp with | some (a, b) => showFields [[a, b]] | none => "reject"
  | "disc_integral", [x, y, mp, [a, b]] =>
    match disc_integral 4 x y mp a b with | some (u, v) => showFields [[u, v]] | none => "reject"
  | "pwc_avrg_list", [x, y, iv] => show1 (pwc_avrg_list (iv.length + 4) x y (evens iv) (odds iv))
  | "pwl_avrg_list", [x, y1, y2, iv] => show1 (pwl_avrg_list (iv.length + 4) x y1 y2 (evens iv) (odds iv))
  | "disc_integral_list", [x, y, mp, iv] =>
    match disc_integral_list (iv.length + 4) x y mp (evens iv) (odds iv) with | some (u, v) => showFields [[u, v]] | none => "reject"
  | "disc_plot", [x, y, mp, [k]] =>
    match disc_plottable (x.length + 4) x y mp k.num with
    | some (xs, ys) => showFields [xs, ys] | none => "reject"
  | "isi_lengths", [_, _, ts :: te :: sp] =>
    match PySpike.GenIsiLen.isi_lengths 4 sp ts te with | some l => showFields [l] | none => "reject"
  | _, _ => "bad-op"

partial def loop (h : IO.FS.Stream) (out : IO.FS.Stream) : IO Unit := do
  let line ← h.getLine
  if line.isEmpty then return ()
  let line := line.trimAscii.toString
  if line.isEmpty then
    out.putStrLn ""
  else
    let parts := (line.splitOn "|").map (fun s => s.trimAscii.toString)
    match parts with
    | [] => out.putStrLn "bad-op"
    | op :: fs =>
      match fs.mapM parseList with
      | none => out.putStrLn "bad-op"
      | some f => out.putStrLn (handle op f)
  loop h out

def main : IO Unit := do
  let stdin ← IO.getStdin
  let stdout ← IO.getStdout
  loop stdin stdout
