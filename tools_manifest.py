#!/usr/bin/env python3
"""Regenerates MANIFEST.json from the table below (kept in one place so that it stays valid)."""
import json
LEVEL = {
 'C01': ('ISI scan = definition, by functional induction over the merge scan with a loop invariant; API level incl. empty trains; model tied to /repo by exact-structure correspondence (exhaustive grids + random) and the definition oracle', 'full'),
 'C02': ('SPIKE scan = cursor-free definition at every breakpoint and every time (refinement theorem by induction over the scan; also on the public function incl. empty trains), 0 at shared spikes, global nearest-spike minimum, outside the class of known finding F9 (for which the full statement is proved FALSE of the code); values in [0,1] and the definition <= 1 for ALL valid trains', 'partial: F9 class excluded from the equality'),
 'C03': ('SPIKE-Sync scan = pairwise coincidence definition (refinement theorem; also on the public function for every keyword combination), closed form of the window (minimum of the four adjacent half intervals, capped by max_tau; MRTS form), coincidence mutual, one-to-one, adjacent, strict ties; filter indicator = same definition', 'full (model)'),
 'C04': ('order / directionality scans = sign-convention spec, public directionality = sum of the spec values (÷ count), directionality values = sum over the other trains / (N-1) for every keyword combination and indices, ranges, cancellation, swap negation (no exclusion), matrix entries = pair directionalities, antisymmetry, synfire identity for every kw and indices, pooled multivariate ratio', 'full (model)'),
 'C05': ('scalar = average of its profile: bivariate definitional; multivariate ISI / SPIKE / Sync / order over the whole recording and over any sub-interval for every keyword combination; no event inside the interval => SPIKE-Sync = 1; single-pass compiled routines = profile average / profile sums', 'full (model)'),
 'C06': ('all-pairs aggregate: divide-and-conquer = fold on an associative/commutative class; multivariate profile = mean of pair profiles at every time (both one-sided limits); multivariate scalars = mean / pooled ratio of the PUBLIC pair functions with the same keywords; profiles (as representations) and scalars invariant under permutation of the list; matrix entries = public pair values, diagonal 0 / 1', 'full (model)'),
 'C07': ('range / symmetry / identity for ISI, SPIKE (values in [0,1] for ALL valid trains, F9 class included), SPIKE-Sync, spike-train order, directionality: profiles, distances, multivariate, matrices, every keyword combination and sub-interval; finiteness of the SPIKE scan (all interval lengths positive)', 'full (model)'),
 'C08': ('affine equivariance (shift + positive scaling incl. MRTS, max_tau, interval, MRTS=auto) of all 7 kernels, every public scalar / profile / matrix / filter, bivariate and lists (reconcile is shift- but not scale-equivariant in its absolute tolerance band: counterexample); mirror theorems for ISI, Sync, order (sign), directionality, multivariate profiles and sub-interval scalars; SPIKE mirror for the definition (all valid trains) and for the scan outside F9 and its mirror image, where it is proved false', 'partial: F9 class (SPIKE mirror)'),
 'C09': ('add = pointwise addition on the merged support for Pwc / Pwl / Disc: one-step theorems by induction over the merge, associativity / commutativity as representations, integrals over any sub-interval distribute, refinement of arbitrary add / mul_scalar / copy histories to pointwise arithmetic, average_profile = pointwise mean', 'full (model)'),
 'C10': ('integral / average / evaluation of the three function classes are the exact Riemann integral / one-sided limits (theorems for whole support, sub-intervals, interval lists, rejects)', 'full (model)'),
 'C11': ('discrete add by event (commutative / associative as representation), open-interval integrals, lists, rejects, averages, plottable smoothing; histories', 'full (model)'),
 'C12': ('source level: the .pyx sources are transliterated on every run and executed against the .py twin and the Lean model; equality theorems between the Pyx and Py models (profiles, get_tau, single-pass = profile average, counters = profile sums for all sorted trains, API-shaped compiled routes); the compiled binary itself never runs here', 'partial by construction'),
 'C13': ('reconcile theorems (common interval, strictly increasing, exact content, idempotent, order/repeats irrelevant); EVERY API function = its Reconcile=False core on the reconciled trains (25 functions), switch irrelevant on valid input; non-mutation monitored at run time', 'full (model) + monitor'),
 'C14': ('call-form / indices / pair / two-index theorems over the API model for every measure and every keyword combination (reconciliation on or off)', "full (model); 'auto'+indices = known finding F8"),
 'C15': ('MRTS antitone at kernel, whole-profile, public, multivariate and matrix level (ISI; SPIKE for ALL valid trains; SPIKE-Sync monotone incl. filter), small-MRTS and MRTS=0 no-ops, breakpoints independent of MRTS, isi_lengths = ISI-list definition and auto threshold = rms of that list outside the class of known finding F7 (full statement proved false), auto threshold positive', 'partial: F7 class excluded'),
 'C16': ('window <= max_tau (after fix F4), coincident implies closer than max_tau (kernel and every public function, every keyword combination), monotone in max_tau at kernel, profile, multivariate-profile and filter-output level, None = 0 = unbounded', 'full'),
 'C17': ('filter keeps exactly the spikes whose coincidence count exceeds threshold*(N-1) (every keyword combination): keep rule, partition, antitone in threshold; count = number of coincident trains; multivariate profile at a spike time = pooled counts of the trains spiking there; gloss "= the value the profile shows for that spike" false at shared spike times with different counts (known finding F14, kernel-decided witness)', 'full (model) for the keep rule; F11 (float), F14'),
 'C18': ('every scalar / matrix function is defined (exact acceptance sets of intervals), all four profile kinds well-formed on [t_start,t_end] (bi- and multivariate, indices), shapes of matrices / per-spike results / filter output, SPIKE values bounded and every interval length the scan divides by positive for all valid trains; exceptions / NaN of the real code monitored over the degenerate-input catalogue', 'full (model) + monitor'),
 'C19': ('text round trip: load(save) = trains rounded to the printed precision (sorted trains: exactly the printed values), line structure, comments, empty lines, sorting; printed value: odd, monotone, idempotent, exact on short decimals, relative accuracy 10^-p/2, resolved spikes stay distinct; second round trip identical; IEEE decimal conversion assumed', 'partial: IEEE parsing assumed'),
 'C20': ('merge = sorted multiset union, PSTH bins partition the spikes and conserve the count, Poisson generator output sorted and inside the interval', 'full (model)'),
}
checks = []
for pid, (text, strength) in LEVEL.items():
    checks.append({
        'property_id': pid,
        'quick_cmd': './check %s --tier quick' % pid,
        'thorough_cmd': './check %s --tier thorough' % pid,
        'evidence_file': 'evidence/%s.json' % pid,
        'replay_cmd_template': './check --replay {path}',
        'engine': 'lean4-proof+correspondence',
        'level_claimed': {'category': 'proof', 'text': text + (' [%s]' % strength), 'design_ref': 'DESIGN.md §8 ' + pid},
        'level_note': 'Trusted: Lean 4.33 kernel; axioms propext/Classical.choice/Quot.sound only (audited each run); the hand-written model and its correspondence check against /repo (differential, bounded by generators); Rat abstraction of doubles; numpy primitives by documented meaning. Non-mutation/exceptions monitored, not proved.',
        'technique': 'Lean 4 theorems about a hand-written executable model + per-run model/implementation correspondence check',
    })
m = {
 'version': 1,
 'setup_cmd': 'cd lean && lake build PySpikeVerif pyspike_model',
 'hooks': {'guard': 'PYSPIKE_VERIF', 'enable': 'no source hooks: all instrumentation is harness-side (module shims, sys.modules injection); nothing in /repo is guarded',
           'baseline_off_cmd': 'cd /repo && /venv/bin/python -m pytest -ra -q -p no:cacheprovider --timeout=900 --continue-on-collection-errors',
           'source_commits': [], 'add_only': True},
 'engines': [{'name': 'lean4-proof+correspondence', 'path': 'lean/', 'serves_properties': sorted(LEVEL), 'kind_free_text': 'Lean 4 library (Model/Spec/Proofs/Properties), compiled line-protocol driver, Python correspondence harness'}],
 'checks': checks,
 'notes': 'fix: commits in /repo are listed in known_findings.json (kind=fixed). Known findings print KNOWN-FINDING lines.',
 'not_applicable': [],
}
json.dump(m, open('MANIFEST.json', 'w'), indent=1)
