#!/usr/bin/env python3
"""Regenerates MANIFEST.json from the table below (kept in one place so that it stays valid)."""
import json
LEVEL = {
 'C01': ('ISI scan = definition, by functional induction over the merge scan with a loop invariant; API level incl. empty trains; model tied to /repo by exact-structure correspondence (exhaustive grids + random) and the definition oracle', 'full'),
 'C02': ('SPIKE scan = cursor-free definition at every breakpoint and every time (refinement theorem by induction over the scan), 0 at shared spikes, global nearest-spike minimum, outside the class of known finding F9 (for which the full statement is proved FALSE of the code); values in [0,1] and the definition <= 1 for ALL valid trains', 'partial: F9 class excluded from the equality'),
 'C03': ('SPIKE-Sync scan = pairwise coincidence definition (refinement theorem), filter indicator = same definition, one-to-one, adjacent, strict ties, window <= half ISI; API level through reconcile theorems', 'full (model)'),
 'C04': ('order / directionality scans = sign-convention spec (refinement, both scans), directionality values = sum over the other trains / (N-1), ranges, cancellation, swap negation, antisymmetric matrix, synfire identity, pooled multivariate ratio', 'full (model)'),
 'C05': ('scalar = average of its profile: bivariate definitional; multivariate ISI / SPIKE / Sync over the whole recording and over any sub-interval (integral linearity over add proved for all three function classes); single-pass compiled routines = profile average / profile sums', 'full (model)'),
 'C06': ('all-pairs aggregate: divide-and-conquer = fold on an associative/commutative class, multivariate profile = mean of pair profiles at every time, multivariate PROFILES (as representations) and scalars invariant under permutation of the list (ISI, SPIKE, Sync), matrices = bivariate entries', 'full (model)'),
 'C07': ('range / symmetry / identity: ISI complete (every kw, sub-interval, multivariate, matrix); SPIKE profile, distance, multivariate profile and matrix in [0,1] for ALL valid trains (F9 class included), SPIKE symmetry for all inputs, identity for all valid trains; Sync and order ranges, symmetry, directionality self = 0', 'full (model); remaining API-level restatements in wave F'),
 'C08': ('affine equivariance (shift + positive scaling incl. MRTS, max_tau) of all 7 kernels for all inputs; mirror theorems for ISI, Sync, order, and SPIKE (definition: all valid trains; scan: outside F9 and its mirror image, where it is proved false)', 'partial: F9 class'),
 'C09': ('add = pointwise addition on the merged support for Pwc / Pwl / Disc: one-step theorems by induction over the merge, associativity / commutativity as representations, integrals over any sub-interval distribute, refinement of arbitrary add / mul_scalar / copy histories to pointwise arithmetic, average_profile = pointwise mean', 'full (model)'),
 'C10': ('integral / average / evaluation of the three function classes are the exact Riemann integral / one-sided limits (theorems for whole support, sub-intervals, interval lists, rejects)', 'full (model)'),
 'C11': ('discrete add by event (commutative / associative as representation), open-interval integrals, lists, rejects, averages, plottable smoothing; histories', 'full (model)'),
 'C12': ('source level: the .pyx sources are transliterated on every run and executed against the .py twin and the Lean model; equality theorems between the Pyx and Py models (profiles, get_tau, single-pass = profile average, counters = profile sums for all sorted trains, API-shaped compiled routes); the compiled binary itself never runs here', 'partial by construction'),
 'C13': ('reconcile theorems (common interval, strictly increasing, exact content, idempotent, order/repeats irrelevant); EVERY API function = its Reconcile=False core on the reconciled trains (25 functions), switch irrelevant on valid input; non-mutation monitored at run time', 'full (model) + monitor'),
 'C14': ('call-form / indices / pair theorems over the API model for every measure and keyword combination', "full (model); 'auto'+indices = known finding F8"),
 'C15': ('MRTS antitone at kernel AND whole-profile level (ISI, SPIKE, Sync), small-MRTS and MRTS=0 no-ops, breakpoints independent of MRTS, isi_lengths = ISI-list definition outside the class of known finding F7 (full statement proved false), auto threshold = rms of pooled list and positive', 'partial: F7 class excluded'),
 'C16': ('window <= max_tau (after fix F4), coincident implies closer than max_tau (kernel and every public function: profiles, directionality values, filter), monotone in max_tau, None = 0 = unbounded', 'full'),
 'C17': ('filter keeps exactly the spikes whose coincidence count exceeds threshold*(N-1): keep_iff, partition, antitone in threshold; count = number of coincident trains; fraction = value of the multivariate SPIKE-Sync profile at the spike time', 'full (model); float rounding = known finding F11'),
 'C18': ('every scalar / matrix function is defined (exact acceptance sets of intervals), all four profile kinds well-formed on [t_start,t_end] (bi- and multivariate, indices), shapes of matrices / per-spike results / filter output, SPIKE values bounded for all valid trains, positive denominators; exceptions / NaN of the real code monitored over the degenerate-input catalogue', 'full (model) + monitor'),
 'C19': ('text round trip: load(save) = trains rounded to the printed precision (sorted trains: exactly the printed values), line structure, comments, empty lines, sorting; printed value: odd, monotone, idempotent, exact on short decimals, relative accuracy 10^-p/2, resolved spikes stay distinct; second round trip identical; IEEE decimal conversion assumed', 'partial: IEEE parsing assumed'),
 'C20': ('merge = sorted multiset union, PSTH bins partition the spikes and conserve the count, Poisson generator output sorted and inside the interval', 'full (model)'),
}
checks = []
for pid, (text, strength) in LEVEL.items():
    checks.append({
        'property_id': pid,
        'quick_cmd': './check %s --tier quick' % pid,
        'thorough_cmd': './check %s --tier thorough' % pid,
        'evidence_file': 'evidence/%s.json' % pid,
        'replay_cmd_template': './check --replay {path}',
        'engine': 'lean4-proof+correspondence',
        'level_claimed': {'category': 'proof', 'text': text + (' [%s]' % strength), 'design_ref': 'DESIGN.md §8 ' + pid},
        'level_note': 'Trusted: Lean 4.33 kernel; axioms propext/Classical.choice/Quot.sound only (audited each run); the hand-written model and its correspondence check against /repo (differential, bounded by generators); Rat abstraction of doubles; numpy primitives by documented meaning. Non-mutation/exceptions monitored, not proved.',
        'technique': 'Lean 4 theorems about a hand-written executable model + per-run model/implementation correspondence check',
    })
m = {
 'version': 1,
 'setup_cmd': 'cd lean && lake build PySpikeVerif pyspike_model',
 'hooks': {'guard': 'PYSPIKE_VERIF', 'enable': 'no source hooks: all instrumentation is harness-side (module shims, sys.modules injection); nothing in /repo is guarded',
           'baseline_off_cmd': 'cd /repo && /venv/bin/python -m pytest -ra -q -p no:cacheprovider --timeout=900 --continue-on-collection-errors',
           'source_commits': [], 'add_only': True},
 'engines': [{'name': 'lean4-proof+correspondence', 'path': 'lean/', 'serves_properties': sorted(LEVEL), 'kind_free_text': 'Lean 4 library (Model/Spec/Proofs/Properties), compiled line-protocol driver, Python correspondence harness'}],
 'checks': checks,
 'notes': 'fix: commits in /repo are listed in known_findings.json (kind=fixed). Known findings print KNOWN-FINDING lines.',
 'not_applicable': [],
}
json.dump(m, open('MANIFEST.json', 'w'), indent=1)
