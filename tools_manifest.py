#!/usr/bin/env python3
"""Regenerates MANIFEST.json from the table below (kept in one place so that it stays valid)."""
import json
LEVEL = {
 'C01': ('ISI scan = definition: theorem by induction over the scan (model), model tied to /repo by exact-structure correspondence on exhaustive grids + random cases', 'full'),
 'C02': ('SPIKE scan: structural theorems (breakpoints, lengths, tie value 0, symmetry of dist_at_t); values tied by correspondence and the definition oracle; known finding F9 excluded', 'partial'),
 'C03': ('coincidence window bounds and strict-tie theorems on the model; profile/filter agreement by correspondence', 'partial'),
 'C04': ('sign convention / swap negation theorems on the model of the two directionality scans; API aggregation by correspondence', 'partial'),
 'C05': ('scalar = average of profile: definitional in the API model + integral linearity theorems', 'partial'),
 'C06': ('all-pairs aggregate: add commutativity/associativity theorems on the model', 'partial'),
 'C07': ('range / symmetry / identity theorems on the model (ISI complete; Sync, order ranges; SPIKE non-negativity)', 'partial'),
 'C08': ('shift/scale equivariance theorems proved directly on the model kernels', 'partial'),
 'C09': ('add = pointwise addition on merged support: theorems by induction over the merge', 'partial'),
 'C10': ('integral / evaluation theorems for the model of the function classes', 'partial'),
 'C11': ('discrete add / open-interval integral theorems', 'partial'),
 'C12': ('source-level: .pyx transliterated and run against the .py twin and the Lean model; equality theorems between the two models where the sources differ', 'partial'),
 'C13': ('reconcile theorems (sorted, nodup, membership, idempotent) + API = core∘reconcile by correspondence; non-mutation monitored', 'partial'),
 'C14': ('call-form / indices theorems over the API model', 'partial'),
 'C15': ('MRTS monotonicity and no-op theorems on the kernels', 'partial'),
 'C16': ('tau ≤ max_tau theorem on getTau; monotone in max_tau', 'full'),
 'C17': ('filter = threshold on pairwise counts: decision-logic theorems over the API model', 'partial'),
 'C18': ('denominator positivity / shape theorems; exceptions monitored', 'partial'),
 'C19': ('structural round-trip model; IEEE decimal round-trip assumed', 'partial'),
 'C20': ('merge = sorted permutation of the union; PSTH count conservation; Poisson output shape', 'partial'),
}
checks = []
for pid, (text, strength) in LEVEL.items():
    checks.append({
        'property_id': pid,
        'quick_cmd': './check %s --tier quick' % pid,
        'thorough_cmd': './check %s --tier thorough' % pid,
        'evidence_file': 'evidence/%s.json' % pid,
        'replay_cmd_template': './check --replay {path}',
        'engine': 'lean4-proof+correspondence',
        'level_claimed': {'category': 'proof', 'text': text + (' [%s]' % strength), 'design_ref': 'DESIGN.md §8 ' + pid},
        'level_note': 'Trusted: Lean 4.33 kernel; axioms propext/Classical.choice/Quot.sound only (audited each run); the hand-written model and its correspondence check against /repo (differential, bounded by generators); Rat abstraction of doubles; numpy primitives by documented meaning. Non-mutation/exceptions monitored, not proved.',
        'technique': 'Lean 4 theorems about a hand-written executable model + per-run model/implementation correspondence check',
    })
m = {
 'version': 1,
 'setup_cmd': 'cd lean && lake build PySpikeVerif pyspike_model',
 'hooks': {'guard': 'PYSPIKE_VERIF', 'enable': 'no source hooks: all instrumentation is harness-side (module shims, sys.modules injection); nothing in /repo is guarded',
           'baseline_off_cmd': 'cd /repo && /venv/bin/python -m pytest -ra -q -p no:cacheprovider --timeout=900 --continue-on-collection-errors',
           'source_commits': [], 'add_only': True},
 'engines': [{'name': 'lean4-proof+correspondence', 'path': 'lean/', 'serves_properties': sorted(LEVEL), 'kind_free_text': 'Lean 4 library (Model/Spec/Proofs/Properties), compiled line-protocol driver, Python correspondence harness'}],
 'checks': checks,
 'notes': 'fix: commits in /repo are listed in known_findings.json (kind=fixed). Known findings print KNOWN-FINDING lines.',
 'not_applicable': [],
}
json.dump(m, open('MANIFEST.json', 'w'), indent=1)
