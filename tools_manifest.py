#!/usr/bin/env python3
"""Regenerates MANIFEST.json from the table below (kept in one place so that it stays valid)."""
import json
LEVEL = {
 'C01': ('ISI scan = definition, by functional induction over the merge scan with a loop invariant; API level incl. empty trains; model tied to /repo by exact-structure correspondence (exhaustive grids + random) and the definition oracle', 'full'),
 'C02': ('SPIKE scan = cursor-free definition at every breakpoint and every time (refinement theorem by induction over the scan), values in [0,1], 0 at shared spikes, global nearest-spike minimum; all outside the class of known finding F9, for which the full statement is proved FALSE of the code', 'partial: F9 class excluded'),
 'C03': ('SPIKE-Sync scan = pairwise coincidence definition (refinement theorem), filter indicator = same definition, one-to-one, adjacent, strict ties, window <= half ISI; API level through reconcile theorems', 'full (model)'),
 'C04': ('order / directionality scans = sign-convention spec (refinement), swap negation, leader/follower cancellation, antisymmetric matrix, synfire identity', 'full (kernel) + API identities'),
 'C05': ('scalar = average of its profile: bivariate definitional; multivariate ISI / SPIKE / Sync over the whole recording and over any sub-interval (integral linearity over add proved for all three function classes); single-pass compiled routines = profile average', 'full (model)'),
 'C06': ('all-pairs aggregate: divide-and-conquer = fold on an associative/commutative class, multivariate profile = mean of pair profiles at every time (ISI, SPIKE), scalar measures invariant under permutation of the list (ISI, SPIKE, Sync), matrices = bivariate entries', 'partial: permutation invariance of profile representations pending (wave D3)'),
 'C07': ('range / symmetry / identity: ISI complete; SPIKE profile in [0,1] (outside F9), SPIKE symmetry for all inputs, SPIKE identity for all valid trains; Sync and order ranges, symmetry, directionality self = 0', 'partial: range of SPIKE distance (average) and multivariate values pending (wave D2)'),
 'C08': ('affine equivariance (shift + positive scaling incl. MRTS, max_tau) of all 7 kernels for all inputs; mirror theorems for ISI, Sync, order; SPIKE mirror false on F9 and otherwise pending (wave D1)', 'partial'),
 'C09': ('add = pointwise addition on the merged support for Pwc / Pwl / Disc: one-step theorems by induction over the merge, associativity / commutativity as representations, integrals over any sub-interval distribute, refinement of arbitrary add / mul_scalar / copy histories to pointwise arithmetic', 'full (model)'),
 'C10': ('integral / average / evaluation of the three function classes are the exact Riemann integral / one-sided limits (theorems for whole support, sub-intervals, interval lists, rejects)', 'full (model)'),
 'C11': ('discrete add by event, open-interval integrals, lists, rejects, averages, plottable smoothing; histories', 'full (model)'),
 'C12': ('source level: the .pyx sources are transliterated on every run and executed against the .py twin and the Lean model; equality theorems between the Pyx and Py models (profiles, get_tau, single-pass = profile average, multiplicities); the compiled binary itself never runs here', 'partial by construction'),
 'C13': ('reconcile theorems (common interval, strictly increasing, exact content, idempotent, order/repeats irrelevant); EVERY API function = its Reconcile=False core on the reconciled trains (25 functions), switch irrelevant on valid input; non-mutation monitored at run time', 'full (model) + monitor'),
 'C14': ('call-form / indices / pair theorems over the API model for every measure and keyword combination', "full (model); 'auto'+indices = known finding F8"),
 'C15': ('MRTS antitone at kernel AND whole-profile level (ISI, SPIKE, Sync), small-MRTS and MRTS=0 no-ops, breakpoints independent of MRTS, isi_lengths = ISI-list definition outside the class of known finding F7 (full statement proved false), auto threshold = rms of pooled list and positive', 'partial: F7 class excluded'),
 'C16': ('window <= max_tau (after fix F4), coincident implies closer than max_tau, monotone in max_tau, None = 0 = unbounded', 'full'),
 'C17': ('filter keeps exactly the spikes whose coincidence count exceeds threshold*(N-1): keep_iff, partition, antitone in threshold; count = number of coincident trains; fraction = value of the multivariate SPIKE-Sync profile at the spike time', 'full (model); float rounding = known finding F11'),
 'C18': ('positive denominators (ISI, SPIKE), shapes and well-formedness of all profile kinds incl. SPIKE pair and multivariate profiles, no zero division in sync; exceptions / NaN monitored on the implementation over the degenerate-input catalogue', 'partial: API totality theorems pending (wave D4)'),
 'C19': ('text round trip: load(save) = trains rounded to the printed precision, line structure, comments, empty lines, sorting, printed-value accuracy bound; IEEE decimal conversion assumed', 'partial'),
 'C20': ('merge = sorted multiset union, PSTH bins partition the spikes and conserve the count, Poisson generator output sorted and inside the interval', 'full (model)'),
}
checks = []
for pid, (text, strength) in LEVEL.items():
    checks.append({
        'property_id': pid,
        'quick_cmd': './check %s --tier quick' % pid,
        'thorough_cmd': './check %s --tier thorough' % pid,
        'evidence_file': 'evidence/%s.json' % pid,
        'replay_cmd_template': './check --replay {path}',
        'engine': 'lean4-proof+correspondence',
        'level_claimed': {'category': 'proof', 'text': text + (' [%s]' % strength), 'design_ref': 'DESIGN.md §8 ' + pid},
        'level_note': 'Trusted: Lean 4.33 kernel; axioms propext/Classical.choice/Quot.sound only (audited each run); the hand-written model and its correspondence check against /repo (differential, bounded by generators); Rat abstraction of doubles; numpy primitives by documented meaning. Non-mutation/exceptions monitored, not proved.',
        'technique': 'Lean 4 theorems about a hand-written executable model + per-run model/implementation correspondence check',
    })
m = {
 'version': 1,
 'setup_cmd': 'cd lean && lake build PySpikeVerif pyspike_model',
 'hooks': {'guard': 'PYSPIKE_VERIF', 'enable': 'no source hooks: all instrumentation is harness-side (module shims, sys.modules injection); nothing in /repo is guarded',
           'baseline_off_cmd': 'cd /repo && /venv/bin/python -m pytest -ra -q -p no:cacheprovider --timeout=900 --continue-on-collection-errors',
           'source_commits': [], 'add_only': True},
 'engines': [{'name': 'lean4-proof+correspondence', 'path': 'lean/', 'serves_properties': sorted(LEVEL), 'kind_free_text': 'Lean 4 library (Model/Spec/Proofs/Properties), compiled line-protocol driver, Python correspondence harness'}],
 'checks': checks,
 'notes': 'fix: commits in /repo are listed in known_findings.json (kind=fixed). Known findings print KNOWN-FINDING lines.',
 'not_applicable': [],
}
json.dump(m, open('MANIFEST.json', 'w'), indent=1)
