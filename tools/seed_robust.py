#!/usr/bin/env python3
"""tools/seed_robust.py [seeds…] — is the detection of every seeded change by the check of ITS OWN
property independent of the random seed? Runs `./check <target> --tier quick` with each VERIF_SEED on a
scratch worktree per change and writes seeded/ROBUST.json + a summary line per change that is missed."""
import sys, os, json, subprocess, shutil, glob
from concurrent.futures import ThreadPoolExecutor
V = '/verif'
seeds = [int(a) for a in sys.argv[1:]] or [1, 2, 3]
ids = sorted(os.path.basename(d) for d in glob.glob(V + '/seeded/*') if os.path.isdir(d) and not os.path.basename(d).startswith('_'))


def one(sid):
    d = '/tmp/rb_' + sid
    shutil.rmtree(d, ignore_errors=True)
    subprocess.run(['git', '-C', '/repo', 'worktree', 'add', '-q', '--detach', d, 'HEAD'], check=True)
    res = {}
    try:
        r = subprocess.run(['git', '-C', d, 'apply', os.path.join(V, 'seeded', sid, 'patch.diff')], stderr=subprocess.DEVNULL)
        if r.returncode != 0:
            return sid, {'error': 'patch does not apply'}
        p = sid.split('-')[0]
        for sd in seeds:
            env = dict(os.environ, PYSPIKE_REPO=d, VERIF_SKIP_LEAN='1', VERIF_EVIDENCE_DIR=d + '/_ev', PYTHONPATH=d, VERIF_SEED=str(sd))
            r = subprocess.run([V + '/check', p, '--tier', 'quick'], env=env, stdout=subprocess.PIPE, stderr=subprocess.STDOUT, cwd=V)
            out = r.stdout.decode(errors='replace')
            v = [l for l in out.split('\n') if l.startswith('VIOLATION')]
            res[str(sd)] = 'none' if r.returncode == 0 else ('no-failing-input' if v and v[0].endswith('no-failing-input-found') else 'failing-input')
    finally:
        subprocess.run(['git', '-C', '/repo', 'worktree', 'remove', '--force', d])
    return sid, res


with ThreadPoolExecutor(max_workers=int(os.environ.get('JOBS', '8'))) as ex:
    out = dict(ex.map(one, ids))
json.dump(out, open(V + '/seeded/ROBUST.json', 'w'), indent=1, sort_keys=True)
miss = {k: v for k, v in out.items() if 'error' in v or any(x == 'none' for x in v.values())}
print('changes', len(out), 'seeds', seeds, 'missed for some seed:', json.dumps(miss))
