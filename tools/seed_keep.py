#!/usr/bin/env python3
"""tools/seed_keep.py <worktree mutation dir> <id> <property> [other properties to run]
Confirms a seeded change with tools/seed_eval.py and stores it under /verif/seeded/<id>/."""
import sys, os, json, subprocess, shutil
mdir, sid, props = sys.argv[1], sys.argv[2], sys.argv[3:]
out = subprocess.run([sys.executable, os.path.join(os.path.dirname(__file__), 'seed_eval.py'), mdir] + props, stdout=subprocess.PIPE).stdout.decode()
r = json.loads(out)
ok = r['apply_rc'] == 0 and r.get('tests', '').startswith('1 failed, 49 passed') and r['demo_clean_rc'] == 0 and r.get('demo_mut_rc', 0) != 0
dst = os.path.join('/verif/seeded', sid)
if not ok:
    print(sid, 'NOT KEPT', r); sys.exit(1)
os.makedirs(dst, exist_ok=True)
for f in ('patch.diff', 'demo.py', 'notes.md'):
    if os.path.exists(os.path.join(mdir, f)):
        shutil.copy(os.path.join(mdir, f), os.path.join(dst, f))
notes = open(os.path.join(mdir, 'notes.md')).read() if os.path.exists(os.path.join(mdir, 'notes.md')) else ''
meta = {'id': sid, 'breaks_property': props[0], 'needs_to_manifest': notes.strip()[:1500],
        'confirmed': {'applies_cleanly': True, 'baseline_tests_with_change': r['tests'], 'demo_exit_without_change': r['demo_clean_rc'], 'demo_exit_with_change': r['demo_mut_rc']},
        'ran': ['git -C /repo apply seeded/%s/patch.diff' % sid, 'cd /repo && /venv/bin/python -m pytest -q -p no:cacheprovider test', 'PYTHONPATH=/repo /venv/bin/python seeded/%s/demo.py' % sid] + ['./check %s --tier quick' % p for p in props] + ['git -C /repo checkout -- .'],
        'detected_by': {p: {'exit': c['rc'], 'line': (c['violation'] or [''])[0], 'message': (c['msg'] or [''])[0].strip()[:300]} for p, c in r['checks'].items()}}
json.dump(meta, open(os.path.join(dst, 'meta.json'), 'w'), indent=1)
print(sid, 'kept;', {p: c['rc'] for p, c in r['checks'].items()})
