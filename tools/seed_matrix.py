#!/usr/bin/env python3
"""tools/seed_matrix.py [ids…] — run every registered quick check against every seeded change
(each in its own scratch copy of /repo under /tmp, removed afterwards) and write seeded/MATRIX.json
+ seeded/MATRIX.md: which checks catch which change."""
import sys, os, json, subprocess, shutil, glob
from concurrent.futures import ThreadPoolExecutor
V = '/verif'
props = ['C%02d' % i for i in range(1, 21)]
ids = sys.argv[1:] or sorted(os.path.basename(d) for d in glob.glob(V + '/seeded/*') if os.path.isdir(d) and not os.path.basename(d).startswith('_'))


def one(sid):
    d = '/tmp/mx_' + sid
    shutil.rmtree(d, ignore_errors=True)
    subprocess.run(['git', '-C', '/repo', 'worktree', 'add', '-q', '--detach', d, 'HEAD'], check=True)
    res = {}
    try:
        r = subprocess.run(['git', '-C', d, 'apply', os.path.join(V, 'seeded', sid, 'patch.diff')])
        if r.returncode != 0:
            return sid, {'error': 'patch does not apply'}
        env = dict(os.environ, PYSPIKE_REPO=d, VERIF_SKIP_LEAN='1', VERIF_SKIP_GEN='1', VERIF_EVIDENCE_DIR=d + '/_ev', PYTHONPATH=d)
        for p in props:
            r = subprocess.run([V + '/check', p, '--tier', 'quick'], env=env, stdout=subprocess.PIPE, stderr=subprocess.STDOUT, cwd=V)
            out = r.stdout.decode(errors='replace')
            v = [l for l in out.split('\n') if l.startswith('VIOLATION')]
            res[p] = {'exit': r.returncode, 'kind': ('none' if r.returncode == 0 else ('no-failing-input' if v and v[0].endswith('no-failing-input-found') else 'failing-input'))}
    finally:
        subprocess.run(['git', '-C', '/repo', 'worktree', 'remove', '--force', d])
    return sid, res


with ThreadPoolExecutor(max_workers=int(os.environ.get('JOBS', '8'))) as ex:
    out = dict(ex.map(one, ids))
path = V + '/seeded/MATRIX.json'
old = json.load(open(path)) if os.path.exists(path) else {}
old.update(out)
json.dump(old, open(path, 'w'), indent=1, sort_keys=True)
with open(V + '/seeded/MATRIX.md', 'w') as f:
    f.write('# Which quick checks catch which seeded change\n\n`X` = exit 1 with a concrete failing input, `x` = exit 1 with `no-failing-input-found`, `.` = exit 0.\n\n')
    f.write('| change | breaks | ' + ' | '.join(p[1:] for p in props) + ' |\n|---|---|' + '---|' * len(props) + '\n')
    for sid in sorted(old):
        r = old[sid]
        if 'error' in r:
            continue
        f.write('| %s | %s | ' % (sid, sid.split('-')[0]) + ' | '.join({'none': '.', 'failing-input': 'X', 'no-failing-input': 'x'}[r[p]['kind']] for p in props) + ' |\n')
print('done', len(out))
