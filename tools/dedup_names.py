#!/usr/bin/env python3
"""tools/dedup_names.py <file.lean> <suffix> : rename declarations of <file> that clash with
declarations of other Proofs/Spec/Model files (helper lemmas written by parallel work packages)."""
import re, sys, os, glob
f, suf = sys.argv[1], sys.argv[2]
root = os.path.dirname(os.path.dirname(os.path.abspath(f)))
decl = re.compile(r'^(?:private\s+)?(?:theorem|lemma|def|abbrev|structure|instance)\s+([\w\.\']+)', re.M)
mine = set(decl.findall(open(f).read()))
others = set()
for g in glob.glob(os.path.join(root, '*', '*.lean')):
    if os.path.abspath(g) != os.path.abspath(f):
        others |= set(decl.findall(open(g).read()))
clash = sorted(mine & others, key=len, reverse=True)
s = open(f).read()
for n in clash:
    s = re.sub(r'(?<![\w\.\'])' + re.escape(n) + r'(?![\w\'])', n + '_' + suf, s)
open(f, 'w').write(s)
print('renamed', clash)
