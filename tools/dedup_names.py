#!/usr/bin/env python3
"""tools/dedup_names.py <file.lean> : declarations of <file> that clash with declarations of other
Proofs/Spec/Model files (helper lemmas written by parallel work packages) are made `private`."""
import re, sys, os, glob
f = sys.argv[1]
root = os.path.dirname(os.path.dirname(os.path.abspath(f)))
decl = re.compile(r'^(?:private\s+)?(?:theorem|lemma|def|abbrev|structure|instance)\s+([\w\.\']+)', re.M)
mine = set(decl.findall(open(f).read()))
others = set()
for g in glob.glob(os.path.join(root, '*', '*.lean')):
    if os.path.abspath(g) != os.path.abspath(f):
        others |= set(n for n in decl.findall(open(g).read()))
clash = sorted(mine & others)
s = open(f).read()
for n in clash:
    s = re.sub(r'^(theorem|lemma|def|abbrev)\s+' + re.escape(n) + r'(?![\w\.\'])', r'private \1 ' + n, s, flags=re.M)
open(f, 'w').write(s)
print('made private', clash)
