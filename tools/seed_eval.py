#!/usr/bin/env python3
"""tools/seed_eval.py <mutation dir> <property> [more properties…]
Validates a seeded change (applies cleanly, baseline tests still pass, demo fails with / passes
without it) and runs the registered quick checks against it. /repo is restored afterwards."""
import sys, os, subprocess, json, re, shutil
def sh(cmd, **kw):
    p = subprocess.run(cmd, shell=True, stdout=subprocess.PIPE, stderr=subprocess.STDOUT, **kw)
    return p.returncode, p.stdout.decode(errors='replace')
mdir = os.path.abspath(sys.argv[1]); props = sys.argv[2:]
patch = os.path.join(mdir, 'patch.diff'); demo = os.path.join(mdir, 'demo.py')
res = {'dir': mdir, 'props': props}
rc, out = sh('git -C /repo status --porcelain --untracked-files=no')
assert out.strip() == '', 'repo not clean: ' + out
rc, out = sh('cd %s && PYTHONPATH=/repo /venv/bin/python demo.py' % mdir); res['demo_clean_rc'] = rc
rc, out = sh('git -C /repo apply %s' % patch); res['apply_rc'] = rc
try:
    if rc == 0:
        rc, out = sh('cd /repo && /venv/bin/python -m pytest -q -p no:cacheprovider test 2>&1 | tail -1'); res['tests'] = out.strip()
        rc, out = sh('cd %s && PYTHONPATH=/repo /venv/bin/python demo.py' % mdir); res['demo_mut_rc'] = rc
        res['checks'] = {}
        for p in props:
            rc, out = sh('cd /verif && ./check %s --tier %s' % (p, os.environ.get('TIER', 'quick')))
            v = [l for l in out.split('\n') if l.startswith('VIOLATION')]
            msg = [l for l in out.split('\n') if l.startswith('  ')]
            res['checks'][p] = {'rc': rc, 'violation': v[:1], 'msg': msg[:1]}
finally:
    sh('git -C /repo checkout -- .')
print(json.dumps(res, indent=1))
