#!/usr/bin/env python3
"""tools/mutants_classify.py — hand classification of the mutants that pass the repository's tests and
that no quick check catches (seeded/MUTANTS.json, written by tools/mutants.py). Each rule is
(file substring, predicate on the mutant) -> reason. A mutant without a rule stays 'UNCLASSIFIED'
and is listed first in MUTANTS.md: it is either an equivalent mutant not analysed yet or a gap."""
import json, re, os
V = os.path.dirname(os.path.dirname(os.path.abspath(__file__)))
P = os.path.join(V, 'seeded', 'MUTANTS.json')
M = json.load(open(P))

EQ = 'equivalent: '
OUT = 'outside the 20 properties: '


def rule_pyx(m):
    f, t, o, n, ln = m['file'], m['text'], m['old'], m['new'], m['line']
    if f.endswith('cython_distances.pyx') and 393 <= ln <= 568:
        return OUT + 'dead code: `spike_distance_rf_cython` / `isi_avrg_rf_cython` are never called from the package'
    if t.startswith('cdef double interval = t_end - t_start'):
        return EQ + 'dead variable (`true_max` is computed from `t_end - t_start` directly)'
    if f.endswith('cython_distances.pyx') and (t == 'index = 1' or t == 'index += 1'):
        return EQ + 'dead counter of the single-pass routines'
    if 'spike_value += 0.5*(y_start + y_end)' in t and ln in (354,):
        return EQ + 'tie branch: `y_end = 0.0` on the line before'
    if f.endswith('cython_distances.pyx') and re.match(r'if s[12]\[0\] > t_start:', t):
        return EQ + 'single-pass integral: a first piece of width 0 contributes nothing'
    if f.endswith('cython_distances.pyx') and ln in (93, 106, 587) or (f.endswith('cython_distances.pyx') and ln == 595 and m['col'] == 55):
        return EQ + 'tie handled as two consecutive events of distance 0: the zero-width piece contributes nothing to the integral / the same spikes are counted'
    if o == 'and' and n == 'or' and ln in (105, 595) and f.endswith('cython_distances.pyx'):
        return EQ + 'the weakened guard is only reachable when the loop condition has already failed'
    if re.search(r'double MRTS=0\.?(, int RI ?= ?0)?\):', t) and o == '0':
        return EQ + 'default value of a parameter that every caller passes'
    if re.match(r'assert N[12] > 0', t):
        return OUT + 'input validation (empty arrays are replaced by the edges before the call)'
    if f.endswith('cython_get_tau.pyx') and ln in (10, 11, 12):
        return EQ + 'the interpolation is continuous at both thresholds'
    if re.search(r'np\.(empty|zeros|ones)\(', t):
        return EQ + 'work buffer size; the result is sliced to the filled part (the smaller sizes still hold the merged result because both operands share their end points)'
    if f.endswith('cython_add.pyx') and (re.match(r'while \(index1\+1 < N1-1\)', t) or re.match(r'elif index2\+1 < N2-1', t)):
        return EQ + '`add`: running the merge loop into the tail does what the tail copy does (both end on the common last breakpoint)'
    if 'get_min_dist_cython(t_p' in t and o == '1':
        return EQ + 'the auxiliary end spike can only matter after non-increasing distances, where the start auxiliary spike is not closer'
    if 'while i + j < N1 + N2 - 2' in t and f.endswith('cython_directionality.pyx') and ln == 242:
        return EQ + 'extra iterations after both trains are exhausted fall into the tie branch, which only advances the cursors (the counter `d` is not touched)'
    return None


def rule(m):
    f, t, o, n, ln = m['file'], m['text'], m['old'], m['new'], m['line']
    if f.endswith('.pyx'):
        r = rule_pyx(m)
        if r:
            return r
    if 'almost_equal' in t or 'np.allclose(self.' in t:
        return OUT + '`almost_equal` helper (never part of a property)'
    if re.search(r'np\.(empty|zeros|ones)\(', t) and ('N1' in t or 'len(' in t or t.startswith(('t_aux', 'st =', 'c =', 'mp =', 'a ='))) and (o, n) in (('2', '3'), ('-', '+'), ('1', '0'), ('1', '2')):
        return EQ + 'work buffer only gets larger; the result is sliced to the filled part'
    if (re.search(r'if N[12] > 1', t) or re.search(r'else t_end-[st][12]\[N[12]-1\]', t)) and (o, n) in (('>', '>='), ('1', '0'), ('1', '2')):
        return EQ + 'for a one-spike train `s[N-2]` is `s[-1] = s[0]` (numpy wrap-around), so both branches give `t_end - s[0]`'
    if re.search(r'^elif \((index2|j) < N2-1\)', t) or re.search(r'^if \(index1 < N1-1\) and', t):
        return EQ + 'the guard is implied by the loop condition together with the failed first branch (proved as loop invariant in Proofs/Isi, SpikeScan, SyncScan)'
    if 'start_index < 0' in t:
        return EQ + '`start_index = 0` is assigned in the branch'
    if 'if d_temp > d' in t:
        return EQ + 'returns the same minimum when the next distance is equal'
    if 'get_min_dist(t_p' in t and o == '1':
        return EQ + 'the auxiliary end spike can only matter after non-increasing distances, where the start auxiliary spike is not closer (C02.nearest_spike_search_is_global_minimum)'
    if re.search(r't_f[12] = t_aux[12]\[1\]', t):
        return EQ + 'tie on the last spike: `dt_f = dt_p` makes the interpolation independent of `t_f`'
    if 'if t<mab: return mab' in t or 'if t > b:  return b' in t:
        return EQ + 'the interpolation is continuous at both thresholds'
    if ('python_backend' in f or f.endswith('cython_profiles.pyx')) and ('spikes2[j+1] < spikes1[i]' in t or 'spikes2[j] < spikes1[i]' in t):
        return EQ + 'single-spike scan: the two-step look-ahead reaches the same partner; simultaneous spikes are coincident either way (C03.filter_indicator_is_pairwise_definition holds for both)'
    if re.search(r'while \(index1\+1 < len\(y1?1?\)\)', t) or re.search(r'^elif index2\+1 < len\(y2?1?\)', t):
        return EQ + '`add`: running the merge loop into the tail does what the tail copy does (both end on the common last breakpoint)'
    if 'self.mp[i] >= expected_mp' in t or 'self.mp[j] < expected_mp' in t:
        return EQ + 'smoothing window: at equality the partial contribution is the whole / zero contribution (C11.plottable_smoothing)'
    if "kwargs['Reconcile'] = False" in t or 'Reconcile=False)' in t or ('is_sorted=True' in t and 'spikes.py' in f):
        return EQ + 'reconciling / sorting a second time is the identity (C13.idempotent)'
    if 'assert (indices <' in t or 'assert start_ind > 0' in t or ('assert np.all(t >=' in t):
        return OUT + 'input validation (which exception an invalid index / an out-of-support time raises)'
    if t.startswith('if L > 1'):
        return EQ + 'the number of pairs n(n-1)/2 is never 2'
    if 'elif len(args) == 2' in t:
        return EQ + 'two trains passed separately then take the list route, which returns the same (C14 pair theorems)'
    if 'for j in range(i+1, len(indices))' in t:
        return EQ + 'the added self-pairs contribute directionality 0 (C07.directionality_self_zero)'
    if 'ind[ind == 0] = 1' in t or 'ind < len(self.x))' in t:
        return EQ + 'index clamp that only matters for times rejected by the preceding assert'
    if 'interval[0]>interval[1]' in t:
        return OUT + 'degenerate interval a = b (C10 quantifies over a < b)'
    if 'np.unique(np.insert(' in t:
        return EQ + 'position of the insertion is irrelevant before `np.unique` sorts'
    if 'ShouldBeSync.shape[0]' in t:
        return EQ + 'square matrix'
    if 'psth.py' in f and 'bin_size = edges[1]-edges[0]' in t:
        return EQ + 'dead assignment (value unused)'
    if 'isi_lengths.py' in f and t == 'return 0':
        return OUT + '`default_thresh([])`: empty list of trains'
    if 'spike_directionality.py' in f and ln >= 495:
        return OUT + '`optimal_spike_train_sorting` (needs the compiled simulated annealing; randomised; no property)'
    if 'spikes.py' in f and 145 <= ln <= 160:
        return OUT + 'Poisson generator: changes the distribution / the number of draws only; output stays sorted, inside the interval, with the edges (C20 oracle runs the real generator)'
    if 'spikes.py' in f and 't > tStart-Eps and t < tEnd+Eps' in t:
        return OUT + 'inclusion of a spike EXACTLY on the 1e-6 tolerance bound (not fixed by C13)'
    return None


n_un = 0
for m in M:
    if m.get('survives_tests') and not m.get('caught_by'):
        r = rule(m)
        m['classification'] = r or 'UNCLASSIFIED'
        n_un += r is None
json.dump(M, open(P, 'w'), indent=1)
print('unclassified:', n_un)
for m in M:
    if m.get('classification') == 'UNCLASSIFIED':
        print('  %s:%d:%d %s->%s | %s' % (m['file'], m['line'], m['col'], m['old'], m['new'], m['text'][:90]))


# ---- regenerate MUTANTS.md with the classification
py = [m for m in M if not m['file'].endswith('.pyx')]
px = [m for m in M if m['file'].endswith('.pyx')]
with open(os.path.join(V, 'seeded', 'MUTANTS.md'), 'w') as f:
    f.write('# First-order mutants (tools/mutants.py, classification: tools/mutants_classify.py)\n\n')
    for title, grp in (('pyspike/*.py', py), ('pyspike/cython/*.pyx (never compiled here: the repository\'s tests cannot see these changes at all; checked through the transliterator)', px)):
        if not grp:
            continue
        surv = [m for m in grp if m.get('survives_tests')]
        missed = [m for m in surv if not m.get('caught_by')]
        f.write('## %s\n\n' % title)
        f.write('%d mutants generated (comparison / arithmetic operators, small constants, min/max, and/or, True/False; one token each).\n' % len(grp))
        f.write('%d are rejected by the repository\'s own test-suite; %d pass it — realistic changes that compile and pass the existing tests.\n' % (len(grp) - len(surv), len(surv)))
        f.write('Of those %d the registered quick checks catch %d (most relevant check first, stopping at the first exit 1); %d are caught by no check:\n' % (len(surv), len(surv) - len(missed), len(missed)))
        cl = {}
        for m in missed:
            key = (m.get('classification') or 'UNCLASSIFIED').split(':')[0]
            cl[key] = cl.get(key, 0) + 1
        f.write(', '.join('%s: %d' % kv for kv in sorted(cl.items())) + '.\n\n')
        by = {}
        for m in surv:
            if m.get('caught_by'):
                by[m['caught_by']] = by.get(m['caught_by'], 0) + 1
        f.write('First check that caught a mutant: ' + ', '.join('%s %d' % kv for kv in sorted(by.items())) + '.\n\n')
        f.write('| file:line | change | source line | why no check can / needs to catch it |\n|---|---|---|---|\n')
        for m in sorted(missed, key=lambda m: (m.get('classification', '') != 'UNCLASSIFIED', m['file'], m['line'], m['col'])):
            f.write('| %s:%d | `%s` → `%s` (col %d) | `%s` | %s |\n' % (m['file'].replace('pyspike/', ''), m['line'], m['old'], m['new'], m['col'], m['text'].replace('|', '\\|')[:90], m.get('classification', '')))
        f.write('\n')
