#!/usr/bin/env python3
"""tools/restate.py <Proofs file> <spec file>  — generate restated property theorems.

spec file: lines `Cxx  proof_theorem_name  new_name [@ section-variable binders] | doc comment`. For every line the statement of
`proof_theorem_name` is copied verbatim from the Proofs file (binders and type, up to the `:=` of the
declaration) and a theorem `new_name` with the same binders and type is emitted inside
`namespace PySpike.Cxx`, proved by applying the Proofs theorem to the explicit binders. The full
statement is therefore visible (and audited) in the Properties file. Output goes to stdout."""
import sys, re

src = open(sys.argv[1]).read()
spec = [l.rstrip('\n') for l in open(sys.argv[2]) if l.strip() and not l.startswith('#')]


def decl_of(name):
    m = re.search(r'^theorem\s+' + re.escape(name) + r'(?![\w\.\'])', src, flags=re.M)
    if not m:
        raise SystemExit('theorem %s not found' % name)
    i = m.end()
    depth = 0
    j = i
    # find the top-level ":=" that ends the signature
    while j < len(src):
        c = src[j]
        if c in '([{⟨':
            depth += 1
        elif c in ')]}⟩':
            depth -= 1
        elif depth == 0 and src.startswith(':=', j):
            break
        elif depth == 0 and src.startswith('\n  | ', j):
            break
        j += 1
    sig = src[i:j].rstrip()
    return sig


def binders(sig):
    """explicit binder names in order, from the binder groups before the top-level ':'"""
    names = []
    depth = 0
    k = 0
    start = None
    while k < len(sig):
        c = sig[k]
        if c in '([{⟨':
            if depth == 0:
                start = (c, k)
            depth += 1
        elif c in ')]}⟩':
            depth -= 1
            if depth == 0 and start:
                grp = sig[start[1] + 1:k]
                if start[0] == '(':
                    # names before the first top-level ':' of the group
                    d2 = 0
                    for q, ch in enumerate(grp):
                        if ch in '([{⟨':
                            d2 += 1
                        elif ch in ')]}⟩':
                            d2 -= 1
                        elif ch == ':' and d2 == 0 and not grp.startswith(':=', q):
                            names += grp[:q].split()
                            break
                start = None
        elif c == ':' and depth == 0:
            break
        k += 1
    return names


groups = {}
for l in spec:
    head, _, doc = l.partition('|')
    head, _, pre = head.partition('@')      # `@ (x : T) …`: section variables of the Proofs file, to be made explicit
    prop, old, new = head.split()
    sig = decl_of(old)
    if pre.strip():
        sig = ' ' + pre.strip() + sig
    args = ' '.join(binders(sig))
    groups.setdefault(prop, []).append('/-- %s -/\ntheorem %s%s :=\n  _root_.PySpike.%s %s\n' % (doc.strip(), new, sig, old, args))
for prop in sorted(groups):
    print('namespace PySpike.%s\nopen PySpike PySpike.C01%s\n' % (prop, '\nopen PySpike.C09 (Op unitVec)\nopen PySpike.B7' if prop == 'C09' and 'B7.run' in ''.join(groups[prop]) else ''))
    print('\n'.join(groups[prop]))
    print('end PySpike.%s\n' % prop)
