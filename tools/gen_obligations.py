#!/usr/bin/env python3
"""tools/gen_obligations.py — regenerate lean/obligations.json from the Properties files:
property id = the namespace `PySpike.Cxx` a theorem is declared in; modules = the Properties
files that contain that namespace. Run after editing any Properties/*.lean."""
import re, os, glob, json
HERE = os.path.dirname(os.path.dirname(os.path.abspath(__file__)))
P = os.path.join(HERE, 'lean', 'PySpikeVerif', 'Properties')
out = {}
for f in sorted(glob.glob(os.path.join(P, '*.lean'))):
    mod = 'PySpikeVerif.Properties.' + os.path.basename(f)[:-5]
    ns = None
    src = open(f).read()
    # drop block comments
    src = re.sub(r'/-.*?-/', lambda m: '\n' * m.group(0).count('\n'), src, flags=re.S)
    for line in src.split('\n'):
        m = re.match(r'^namespace\s+(PySpike\.(C\d\d))\s*$', line)
        if m:
            ns = m.group(1), m.group(2)
            continue
        m = re.match(r'^end\s+PySpike\.C\d\d', line)
        if m:
            ns = None
            continue
        m = re.match(r'^theorem\s+([\w\.\']+)', line)
        if m and ns:
            e = out.setdefault(ns[1], {'modules': [], 'theorems': []})
            if mod not in e['modules']:
                e['modules'].append(mod)
            e['theorems'].append(ns[0] + '.' + m.group(1))
json.dump(out, open(os.path.join(HERE, 'lean', 'obligations.json'), 'w'), indent=1)
print({k: len(v['theorems']) for k, v in sorted(out.items())}, sum(len(v['theorems']) for v in out.values()))
