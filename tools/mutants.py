#!/usr/bin/env python3
"""tools/mutants.py [--files f1,f2] [--limit N] [--jobs J] — systematic first-order mutation analysis.

Every comparison / arithmetic operator, small integer constant and min/max in pyspike/*.py is
mutated in turn (token-level, so CRLF files stay byte-identical elsewhere). A mutant that still
passes the repository's own test-suite ("49 passed") is a *realistic change that compiles and passes
the existing tests*; the 20 registered quick checks are then run against it (most relevant first,
stopping at the first that exits 1). Result: seeded/MUTANTS.json and seeded/MUTANTS.md with the
mutants no check catches (to be classified by hand as equivalent or as a gap).
Scratch worktrees under /tmp/mu_<k> are removed at the end; /repo itself is never touched."""
import sys, os, io, json, subprocess, shutil, tokenize, argparse, time
from concurrent.futures import ThreadPoolExecutor
import threading, queue

V = '/verif'
FILES = ['pyspike/cython/python_backend.py', 'pyspike/cython/directionality_python_backend.py', 'pyspike/generic.py',
         'pyspike/isi_distance.py', 'pyspike/spike_distance.py', 'pyspike/spike_sync.py', 'pyspike/spike_directionality.py',
         'pyspike/spikes.py', 'pyspike/SpikeTrain.py', 'pyspike/PieceWiseConstFunc.py', 'pyspike/PieceWiseLinFunc.py',
         'pyspike/DiscreteFunc.py', 'pyspike/isi_lengths.py', 'pyspike/psth.py']
OPS = {'<': ['<=', '>'], '<=': ['<', '>='], '>': ['>=', '<'], '>=': ['>', '<='], '==': ['!='], '!=': ['=='],
       '+': ['-'], '-': ['+'], '*': ['/'], '/': ['*'], '+=': ['-='], '-=': ['+='], '*=': ['/=']}
NAMES = {'min': ['max'], 'max': ['min'], 'and': ['or'], 'or': ['and'], 'True': ['False'], 'False': ['True']}
NUMS = {'0': ['1'], '1': ['0', '2'], '2': ['1', '3'], '0.5': ['1.0'], '2.0': ['1.0'], '2.': ['1.'], '4': ['2'], '1.0': ['0.0'], '0.0': ['1.0']}
ORDER_FUNC = ['C10', 'C09', 'C11', 'C05', 'C06', 'C14', 'C18', 'C07']
ORDER_IO = ['C13', 'C19', 'C20', 'C14', 'C18', 'C15']
ORDER_MEAS = ['C14', 'C05', 'C18', 'C06', 'C03', 'C04', 'C01', 'C02', 'C07', 'C17', 'C16', 'C15', 'C13', 'C08']
ALL = ['C%02d' % i for i in range(1, 21)]


PYX_FILES = ['pyspike/cython/cython_add.pyx', 'pyspike/cython/cython_distances.pyx', 'pyspike/cython/cython_profiles.pyx',
             'pyspike/cython/cython_directionality.pyx', 'pyspike/cython/cython_get_tau.pyx']


def order_for(f):
    if f.endswith('.pyx'):
        # the compiled kernels are reached only through the transliterator: C12 first, then the
        # properties whose oracles run a second time in the compiled-kernel configuration
        return ['C12', 'C05', 'C07', 'C18', 'C14', 'C13']
    base = ORDER_FUNC if ('PieceWise' in f or 'DiscreteFunc' in f) else ORDER_IO if ('spikes.py' in f or 'SpikeTrain' in f or 'psth' in f or 'isi_lengths' in f) else ORDER_MEAS
    return base + [p for p in ALL if p not in base]


def enumerate_mutants(files):
    out = []
    for f in files:
        src = open(os.path.join('/repo', f), 'rb').read().decode('utf-8')
        depth_def = 0
        toks = list(tokenize.generate_tokens(io.StringIO(src).readline))
        for k, t in enumerate(toks):
            reps = None
            if t.type == tokenize.OP and t.string in OPS:
                # skip unary minus / keyword '*' in signatures: require an operand-like token before
                prev = toks[k - 1] if k else None
                if t.string in ('-', '+', '*', '/') and (prev is None or prev.type not in (tokenize.NAME, tokenize.NUMBER) and prev.string not in (')', ']')):
                    continue
                if prev is not None and prev.type == tokenize.NAME and prev.string in ('return', 'in', 'not', 'and', 'or', 'if', 'else', 'print', 'lambda', 'import'):
                    continue
                reps = OPS[t.string]
            elif t.type == tokenize.NAME and t.string in NAMES:
                reps = NAMES[t.string]
            elif t.type == tokenize.NUMBER and t.string in NUMS:
                reps = NUMS[t.string]
            if not reps:
                continue
            line = src.split('\n')[t.start[0] - 1] if t.start[0] - 1 < len(src.split('\n')) else ''
            st = line.strip()
            if st.startswith(('import ', 'from ', '@', 'def ', 'class ', 'print(', 'assert isinstance', 'raise ', 'cimport ', 'cdef extern', 'ctypedef ', 'DTYPE')):
                continue
            for r in reps:
                out.append({'file': f, 'line': t.start[0], 'col': t.start[1], 'old': t.string, 'new': r, 'text': st[:100]})
    return out


def apply_mut(root, m):
    p = os.path.join(root, m['file'])
    data = open(p, 'rb').read()
    lines = data.split(b'\n')
    ln = lines[m['line'] - 1]
    s = ln.decode('utf-8')
    assert s[m['col']:m['col'] + len(m['old'])] == m['old'], (m, s)
    lines[m['line'] - 1] = (s[:m['col']] + m['new'] + s[m['col'] + len(m['old']):]).encode('utf-8')
    open(p, 'wb').write(b'\n'.join(lines))
    return data


def work(wid, q, results, lock):
    d = '/tmp/mu_%d' % wid
    shutil.rmtree(d, ignore_errors=True)
    subprocess.run(['git', '-C', '/repo', 'worktree', 'add', '-q', '--detach', d, 'HEAD'], check=True)
    try:
        while True:
            try:
                m = q.get_nowait()
            except queue.Empty:
                return
            orig = apply_mut(d, m)
            res = dict(m)
            try:
                if m['file'].endswith('.pyx'):
                    tail = 'not compiled here: the test-suite cannot see a .pyx change; 49 passed'
                else:
                    r = subprocess.run('cd %s && PYTHONPATH=%s timeout 300 /venv/bin/python -m pytest -q -x -p no:cacheprovider test --deselect test/numeric 2>&1 | tail -1' % (d, d),
                                       shell=True, stdout=subprocess.PIPE)
                    tail = r.stdout.decode(errors='replace').strip()
                res['tests'] = tail[-80:]
                if ' passed' in tail and 'failed' not in tail and 'error' not in tail.lower():
                    res['survives_tests'] = True
                    env = dict(os.environ, PYSPIKE_REPO=d, VERIF_SKIP_LEAN='1', VERIF_EVIDENCE_DIR=d + '/_ev', PYTHONPATH=d)
                    res['caught_by'] = None
                    for p in order_for(m['file']):
                        try:
                            c = subprocess.run([V + '/check', p, '--tier', 'quick'], env=env, stdout=subprocess.PIPE, stderr=subprocess.STDOUT, cwd=V, timeout=900)
                            rc, out = c.returncode, c.stdout.decode(errors='replace')
                        except subprocess.TimeoutExpired:
                            rc, out = 1, 'VIOLATION (timeout: the change makes the code hang)'
                        if rc != 0:
                            v = [l for l in out.split('\n') if l.startswith('VIOLATION')]
                            res['caught_by'] = p
                            res['how'] = 'no-failing-input' if v and v[0].endswith('no-failing-input-found') else 'failing-input'
                            break
                else:
                    res['survives_tests'] = False
            finally:
                open(os.path.join(d, m['file']), 'wb').write(orig)
                shutil.rmtree(d + '/_ev', ignore_errors=True)
            with lock:
                results.append(res)
                if len(results) % 20 == 0:
                    print(len(results), 'done', flush=True)
    finally:
        subprocess.run(['git', '-C', '/repo', 'worktree', 'remove', '--force', d])


def main():
    ap = argparse.ArgumentParser()
    ap.add_argument('--files'); ap.add_argument('--limit', type=int); ap.add_argument('--jobs', type=int, default=8)
    ap.add_argument('--list', action='store_true'); ap.add_argument('--pyx', action='store_true')
    a = ap.parse_args()
    files = a.files.split(',') if a.files else (PYX_FILES if a.pyx else FILES)
    muts = enumerate_mutants(files)
    if a.list:
        print(len(muts)); return
    if a.limit:
        import random
        random.Random(0).shuffle(muts); muts = muts[:a.limit]
    q = queue.Queue()
    for m in muts:
        q.put(m)
    results, lock = [], threading.Lock()
    th = [threading.Thread(target=work, args=(k, q, results, lock)) for k in range(a.jobs)]
    for t in th:
        t.start()
    for t in th:
        t.join()
    path = V + '/seeded/MUTANTS.json'
    old = json.load(open(path)) if os.path.exists(path) else []
    key = lambda m: (m['file'], m['line'], m['col'], m['old'], m['new'])
    merged = {key(m): m for m in old}
    merged.update({key(m): m for m in results})
    allm = sorted(merged.values(), key=key)
    json.dump(allm, open(path, 'w'), indent=1)
    surv = [m for m in allm if m.get('survives_tests')]
    missed = [m for m in surv if not m.get('caught_by')]
    with open(V + '/seeded/MUTANTS.md', 'w') as f:
        f.write('# First-order mutants of pyspike/*.py (tools/mutants.py)\n\n')
        f.write('%d mutants generated; %d are rejected by the repository\'s own test-suite; %d pass it (realistic changes).\n' % (len(allm), len(allm) - len(surv), len(surv)))
        f.write('Of those %d, the registered quick checks catch %d; %d are caught by no check (classified below).\n\n' % (len(surv), len(surv) - len(missed), len(missed)))
        by = {}
        for m in surv:
            if m.get('caught_by'):
                by[m['caught_by']] = by.get(m['caught_by'], 0) + 1
        f.write('first check that caught a mutant (checks were tried most-relevant-first): ' + ', '.join('%s %d' % kv for kv in sorted(by.items())) + '\n\n')
        f.write('| file:line | change | source line | classification |\n|---|---|---|---|\n')
        for m in missed:
            f.write('| %s:%d | `%s` → `%s` (col %d) | `%s` | %s |\n' % (m['file'].replace('pyspike/', ''), m['line'], m['old'], m['new'], m['col'], m['text'].replace('|', '\\|'), m.get('classification', '')))
    print('mutants', len(allm), 'pass tests', len(surv), 'missed', len(missed))


if __name__ == '__main__':
    main()
