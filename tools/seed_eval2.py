#!/usr/bin/env python3
"""tools/seed_eval2.py <mutation dir> <id> <property> [more properties…]   [KEEP=1 to store under seeded/<id>]

Like seed_eval.py / seed_keep.py but never touches /repo: the change is applied in a scratch
worktree (/tmp/se_<id>, removed afterwards) and the checks run with PYSPIKE_REPO pointing there, so
that background runs using /repo are not disturbed.  Confirms: applies cleanly, baseline tests
unchanged (1 failed, 49 passed), demo exit 0 without / non-zero with the change; then runs the
quick checks of the given properties against the changed tree."""
import sys, os, subprocess, json, shutil
def sh(cmd, **kw):
    p = subprocess.run(cmd, shell=True, stdout=subprocess.PIPE, stderr=subprocess.STDOUT, **kw)
    return p.returncode, p.stdout.decode(errors='replace')
mdir = os.path.abspath(sys.argv[1]); sid = sys.argv[2]; props = sys.argv[3:]
wt = '/tmp/se_' + sid
sh('git -C /repo worktree remove --force %s' % wt)
rc, out = sh('git -C /repo worktree add -q --detach %s HEAD' % wt); assert rc == 0, out
res = {'id': sid, 'dir': mdir, 'props': props}
try:
    py = 'cd %s && PYSPIKE_TREE=%s PYTHONPATH=%s /venv/bin/python' % (mdir, wt, wt)
    rc, out = sh('%s demo.py' % py); res['demo_clean_rc'] = rc
    rc, out = sh('git -C %s apply %s' % (wt, os.path.join(mdir, 'patch.diff'))); res['apply_rc'] = rc; res['apply_out'] = out[-300:]
    if rc == 0:
        rc, out = sh('cd %s && PYTHONPATH=%s /venv/bin/python -m pytest -q -p no:cacheprovider test 2>&1 | tail -1' % (wt, wt)); res['tests'] = out.strip()
        rc, out = sh('%s demo.py' % py); res['demo_mut_rc'] = rc; res['demo_out'] = out[-400:]
        res['checks'] = {}
        for p in props:
            evd = '/verif/build/se/' + sid; os.makedirs(evd, exist_ok=True)
            env = dict(os.environ, PYSPIKE_REPO=wt, VERIF_EVIDENCE_DIR=evd, VERIF_SKIP_LEAN='1')
            rc, out = sh('cd /verif && ./check %s --tier %s' % (p, os.environ.get('TIER', 'quick')), env=env)
            v = [l for l in out.split('\n') if l.startswith('VIOLATION')]
            msg = [l for l in out.split('\n') if l.startswith('  ')]
            res['checks'][p] = {'rc': rc, 'violation': v[:1], 'msg': msg[:1]}
finally:
    sh('git -C /repo worktree remove --force %s' % wt)
ok = res.get('apply_rc') == 0 and res.get('tests', '').startswith('1 failed, 49 passed') and res['demo_clean_rc'] == 0 and res.get('demo_mut_rc', 0) != 0
res['confirmed'] = ok
if ok and os.environ.get('KEEP') == '1':
    dst = os.path.join('/verif/seeded', sid)
    os.makedirs(dst, exist_ok=True)
    for f in ('patch.diff', 'demo.py', 'notes.md'):
        if os.path.exists(os.path.join(mdir, f)):
            shutil.copy(os.path.join(mdir, f), os.path.join(dst, f))
    notes = open(os.path.join(mdir, 'notes.md')).read() if os.path.exists(os.path.join(mdir, 'notes.md')) else ''
    meta = {'id': sid, 'breaks_property': props[0], 'needs_to_manifest': notes.strip()[:1500],
            'confirmed': {'applies_cleanly': True, 'baseline_tests_with_change': res['tests'], 'demo_exit_without_change': res['demo_clean_rc'], 'demo_exit_with_change': res['demo_mut_rc']},
            'ran': ['git worktree add <scratch> HEAD; git -C <scratch> apply seeded/%s/patch.diff' % sid, 'cd <scratch> && PYTHONPATH=<scratch> /venv/bin/python -m pytest -q -p no:cacheprovider test',
                    'PYTHONPATH=<scratch> /venv/bin/python seeded/%s/demo.py' % sid] + ['PYSPIKE_REPO=<scratch> ./check %s --tier quick' % p for p in props] + ['git worktree remove --force <scratch>'],
            'detected_by': {p: {'exit': c['rc'], 'line': (c['violation'] or [''])[0], 'message': (c['msg'] or [''])[0].strip()[:300]} for p, c in res['checks'].items()}}
    json.dump(meta, open(os.path.join(dst, 'meta.json'), 'w'), indent=1)
print(json.dumps(res, indent=1))
