"""Replays of the defects found in PySpike at the pinned commit (DESIGN.md §7).
Each function returns (ok, observed, expected); ok == True means the property holds."""
import sys, io, contextlib, math
import numpy as np
import pyspike as spk
from pyspike import SpikeTrain
spk.disable_backend_warning = True

def quiet(f, *a, **k):
    with contextlib.redirect_stdout(io.StringIO()):
        return f(*a, **k)

def F1():
    A = SpikeTrain([1., 2., 3.], [0, 4.]); B = SpikeTrain([1.1, 2.1, 3.1], [0, 4.])
    E1 = SpikeTrain([], [0, 4.]); E2 = SpikeTrain([], [0, 4.])
    v = spk.spike_train_order([A, B, E1, E2])
    e = spk.spike_train_order_profile([A, B, E1, E2]).avrg()
    return abs(v - e) < 1e-12, v, e

def F2():
    A = SpikeTrain([1., 2., 3.], [0, 4.]); B = SpikeTrain([1.1, 2.1, 3.1], [0, 4.]); C = SpikeTrain([1.2, 2.2, 3.2], [0, 4.])
    try:
        v = spk.spike_directionality_values([A, B, C], indices=[0, 2])
    except Exception as ex:
        return False, repr(ex), 'values of sub-list [A, C]'
    e = spk.spike_directionality_values([A, C])
    return all(np.allclose(x, y) for x, y in zip(v, e)), [x.tolist() for x in v], [x.tolist() for x in e]

def F3():
    A = SpikeTrain([1., 2., 3.], [0, 4.]); B = SpikeTrain([1.1, 2.1, 3.1], [0, 4.]); C = SpikeTrain([1.2, 2.2, 3.2], [0, 4.])
    try:
        v = spk.spike_directionality_matrix([A, B, C], indices=[1, 2])
    except Exception as ex:
        return False, repr(ex), 'matrix of sub-list [B, C]'
    e = spk.spike_directionality_matrix([B, C])
    return np.allclose(v, e), v.tolist(), e.tolist()

def F4():
    A = SpikeTrain([10., 20., 30.], [0, 40.]); B = SpikeTrain([13., 23., 33.], [0, 40.])
    p = spk.spike_sync_profile(A, B, max_tau=1.0)
    return float(np.sum(p.y[1:-1])) == 0.0, p.y.tolist(), 'no coincidences (all spikes 3 apart, max_tau=1)'

def F5():
    E1 = SpikeTrain([], [0, 4.]); E2 = SpikeTrain([], [0, 4.]); A = SpikeTrain([1., 2.], [0, 4.])
    with np.errstate(all='ignore'):
        v1 = spk.spike_train_order(E1, E2)
        v2 = spk.spike_directionality(E1, A)
        v3 = spk.spike_directionality_matrix([E1, A, E2])
    ok = math.isfinite(v1) and math.isfinite(v2) and np.isfinite(v3).all()
    return ok, [v1, v2, v3.tolist()], 'finite'

def F6():
    raw = [([3.75, 3.0, 3.25, 2.75], 8.0), ([0.5, 2.0], 8.0), ([0.5, 3.25, 0.75, 2.25], 5.0)]
    trains = [SpikeTrain(s, [0, te]) for s, te in raw]
    R = spk.spikes.reconcile_spike_trains(trains)
    try:
        v = spk.spike_train_order(trains, MRTS='auto')
    except Exception as ex:
        return False, repr(ex), 'value of reconciled input'
    e = spk.spike_train_order(R, MRTS='auto')
    return abs(v - e) < 1e-12, v, e

if __name__ == '__main__':
    bad = 0
    for name in sys.argv[1:] or ['F1', 'F2', 'F3', 'F4', 'F5', 'F6']:
        ok, obs, exp = quiet(globals()[name])
        print(name, 'OK' if ok else 'FAIL', 'observed=', obs, 'expected=', exp)
        bad += (not ok)
    sys.exit(1 if bad else 0)
